"""Set-up of abstract arguments for one routine and collection of its effect (wrapper mode)."""
import re
from .interp import Interp, Region, Ptr, Incomplete, Sink
from .poly import Poly, FV, C, as_poly
from . import ir


def split_top(s, sep=','):
    out = []
    d = 0
    cur = ''
    for ch in s:
        if ch in '([{<':
            d += 1
        elif ch in ')]}>':
            d -= 1
        if ch == sep and d == 0:
            out.append(cur.strip())
            cur = ''
        else:
            cur += ch
    if cur.strip():
        out.append(cur.strip())
    return out


def dem_params(dem):
    """parameter type strings of a demangled signature"""
    i = dem.index('(')
    d = 0
    for j in range(i, len(dem)):
        if dem[j] == '(':
            d += 1
        elif dem[j] == ')':
            d -= 1
            if d == 0:
                break
    inner = dem[i + 1:j]
    if inner.strip() in ('', 'void'):
        return []
    return split_top(inner)


def norm_ty(t):
    t = t.replace('Goldilocks::Element', 'E').replace('unsigned long', 'ul')
    t = re.sub(r'long long vector\[(\d)\]', r'V\1', t)
    return t.strip()


class Param:
    def __init__(s, name, irty, dty, is_this=False):
        s.name = name          # source-level name (without .coerce)
        s.irty = irty
        s.dty = dty            # normalised demangled type ('E const*', 'V4&', 'ul', ...)
        s.region = None
        s.value = None
        s.is_this = is_this

    def __repr__(s):
        return '%s:%s' % (s.name, s.dty)


# Canonical parameter names by POSITION for routines whose harness refers to particular parameters (sizes, buffers): the checks
# must not depend on how the source happens to spell a parameter name.  {regex on the demangled name: [names in order]}
CANON = [
    (r'^PoseidonGoldilocks::linear_hash(_seq|_avx512)?\(', ['output', 'input', 'size']),
    (r'^PoseidonGoldilocks::hash(_seq|_avx512)?\(', ['state', 'input']),
    (r'^PoseidonGoldilocks::merkletree(_seq|_avx|_avx512)?\(', ['tree', 'input', 'num_cols', 'num_rows', 'nThreads', 'dim']),
    (r'^PoseidonGoldilocks::merkletree_batch(_seq|_avx|_avx512)?\(', ['tree', 'input', 'num_cols', 'num_rows', 'batch_size', 'nThreads', 'dim']),
    (r'^MerklehashGoldilocks::getTreeNumElements\(', ['degree']),
    (r'^MerklehashGoldilocks::root\(', ['root', 'tree', 'numElementsTree']),
    (r'^Goldilocks::parcpy\(', ['dst', 'src', 'size', 'num_threads_copy']),
    (r'^Goldilocks::parSetZero\(', ['dst', 'size', 'num_threads_copy']),
    (r'^Goldilocks3::batchInverse\(', ['res', 'src', 'size']),
    (r'^Goldilocks::batchInverse\(', ['res', 'src', 'size']),
    (r'^Goldilocks3::inv\(', ['result', 'a']),
    (r'^Goldilocks3::isOne\(', ['result']),
]
_CANON_RE = None
_PINNED = None


def canonical_names(dem, n):
    """parameter names by position: (1) the names the routine with exactly this demangled signature (its types identify the
    overload) has on the pinned tree - glv/specs/pinned_param_names.json, generated once from the pinned tree: the role grammars of
    C16/C17 and the harnesses read roles off these names, so renaming a parameter in the source changes nothing here;
    (2) the CANON patterns; (3) None = the names in the source (a routine the pinned tree does not have)"""
    global _CANON_RE, _PINNED
    if _PINNED is None:
        import json, os
        try:
            _PINNED = json.load(open(os.path.join(os.path.dirname(__file__), 'specs', 'pinned_param_names.json')))
        except (OSError, ValueError):
            _PINNED = {}
    ns = _PINNED.get(dem)
    if ns is not None and len(ns) == n:
        return ns
    if _CANON_RE is None:
        _CANON_RE = [(re.compile(p), ns) for p, ns in CANON]
    for rx, ns in _CANON_RE:
        if rx.search(dem) and len(ns) == n:
            return ns
    return None


def is_pinned(dem):
    """does the pinned tree have a routine with exactly this demangled signature?"""
    canonical_names(dem, -1)
    return dem in _PINNED


def family(mod, pat):
    """routines whose demangled name matches `pat`, for harnesses that assume the parameter list of the pinned tree: the
    overloads the pinned tree has, when there are any (an overload added since is not what the harness was written for and
    is left to the caller to mention); otherwise every match"""
    names = mod.find_re(pat)
    pinned = [n for n in names if is_pinned(mod.dem[n])]
    return pinned or names


def new_overloads(mod, pat):
    return [mod.dem[n] for n in mod.find_re(pat) if not is_pinned(mod.dem[n])]


def describe(mod, name):
    """[Param] for a function: IR names/types joined with demangled source types"""
    fn = mod.funcs[name]
    dts = [norm_ty(x) for x in dem_params(mod.dem[name])]
    ps = list(fn.params)
    out = []
    if len(ps) == len(dts) + 1 and ps[0][1] == '%this':
        out.append(Param('this', ps[0][0], 'this', True))
        ps = ps[1:]
    if len(ps) != len(dts):
        # sret / split aggregates: not expected for the routines analysed through the harness
        raise Incomplete('parameter list of %s does not match its demangled signature' % mod.dem[name])
    canon = canonical_names(mod.dem[name], len(dts))
    for k, ((t, pn), dt) in enumerate(zip(ps, dts)):
        nm = pn[1:] if pn else '_'
        if nm.endswith('.coerce'):
            nm = nm[:-7]
        if canon:
            nm = canon[k]
        out.append(Param(nm, t, dt))
    return out


def helper_refutation(eff):
    """message when the routine met its specification only with a raw-arithmetic helper replaced by the polynomial it agrees
    with at 0/1 operands, and kernel mode has a representation at which the helper deviates from that polynomial"""
    fs = getattr(eff, 'helper_findings', None)
    if not fs:
        return None
    return ('raw-arithmetic helper is not the field function the routine needs for every representation: %s (contract-level '
            'witness: the operand is a value the producing field operations may deliver)' % fs[0]['info'])


class Effect:
    def __init__(s):
        s.writes = {}      # (region name, offkey) -> value
        s.reads = set()    # (region name, offkey)
        s.ret = None
        s.interp = None
        s.params = None
        s.helper_findings = []    # raw-arithmetic helpers that deviate from their multilinear interpolant (rawhelper.py)


def run_routine(mod, name, summ, opts=None, alias=None, values=None, extents=None, elem=None, pre=None):
    """Interpret `name` on abstract arguments.

    alias:   {param name: param name}  second refers to the same region as the first (aliasing hypothesis)
    values:  {param name: concrete/abstract value} for scalar parameters (default: symbol named after the parameter)
    extents: {param name: bytes} known extents of pointer parameters
    """
    alias = alias or {}
    values = values or {}
    extents = extents or {}
    ps = describe(mod, name)
    opts = dict(opts or {})
    if 'raw_helper' not in opts:
        from . import rawhelper
        opts['raw_helper'] = rawhelper.decide       # small helpers computing on raw representations: decided in kernel mode
        opts['_raw_helper_default'] = True
    I = Interp(mod, summ, opts)
    regs = {}
    args = []
    for p in ps:
        t = p.irty
        if p.name in values:
            p.value = values[p.name]
            args.append(p.value)
            continue
        if t[0] == 'p':
            tgt = alias.get(p.name)
            if tgt is not None and tgt in regs:
                p.region = regs[tgt]
            else:
                dt = p.dty
                el = 'field'
                ext = extents.get(p.name)
                if dt.startswith('ul') or dt.startswith('int') or dt.startswith('long'):
                    el = 'int'
                m = re.match(r'V(\d)( const)?\s*&$', dt)
                if m and ext is None:
                    ext = 8 * int(m.group(1))
                m = re.match(r'V(\d)( const)? \(&\)\s*\[(\d+)\]$', dt)
                if m and ext is None:
                    ext = 8 * int(m.group(1)) * int(m.group(3))
                m = re.match(r'E( const)? \(&\)\s*\[(\d+)\]$', dt)
                if m and ext is None:
                    ext = 8 * int(m.group(2))
                if dt in ('E&', 'E const&') and ext is None:
                    ext = 8
                if dt in ('ul const&', 'ul&') and ext is None:
                    ext = 8
                if elem and p.name in elem:
                    el = elem[p.name]
                p.region = Region(p.name, 'param', extent=ext, elem=el)
            regs[p.name] = p.region
            p.value = Ptr(p.region, 0)
            args.append(p.value)
        elif t[0] == 'i':
            if p.dty == 'E':
                p.value = FV.atom(p.name)
            elif t[1] == 1:
                raise Incomplete('boolean parameter %s needs a value' % p.name)
            else:
                p.value = Poly.var(p.name)
            args.append(p.value)
        elif t[0] == 'v':
            p.value = [FV.atom('%s[%d]' % (p.name, i)) for i in range(t[1])]
            args.append(p.value)
        else:
            raise Incomplete('parameter %s of IR type %s' % (p.name, ir.tystr(t)))
    if pre:
        pre(I, ps)
    e = Effect()
    e.interp = I
    e.params = ps
    e.ret = I.call(name, args)
    e.helper_findings = list(getattr(I, 'helper_findings', []) or [])
    if e.helper_findings and opts.get('_raw_helper_default'):
        # the caller has no use for the finding: a helper that is multilinear at every generic point but deviates from that
        # polynomial at some representation is reported where it is met
        f = e.helper_findings[0]
        raise Sink('helper', 'raw-arithmetic helper is not the field function it is everywhere else: %s (contract-level witness: the operand '
                   'is a value the producing field operations may deliver)' % f['info'], f['loc'], [mod.dem.get(name, name)])
    for reg, off, sz in I.writes:
        if reg.kind == 'param':
            e.writes[(reg.name, off)] = I.mem[(reg, off)][0]
    for reg, off, sz in I.reads:
        if reg.kind == 'param':
            e.reads.add((reg.name, off))
    return e
