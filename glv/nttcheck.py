"""Shared bounded-shape driver for C03 (NTT), C04 (INTT), C05 (extendPol), C19 (call histories)."""
import itertools, time, os, re
from .nttmodel import NTTWorld, dft_matrix, lde_matrix, expected_forms
from .interp import Ptr, NULL, Incomplete, Sink
from .ir import IRError
from .poly import FV, Poly, P
from . import front


def _helper_findings(I):
    """the transform met its specification with every raw-arithmetic helper replaced by the polynomial it agrees with at 0/1
    operands; a helper that deviates from that polynomial at some representation (kernel-mode witness) therefore breaks the
    specification for the inputs that produce that operand"""
    fs = getattr(I, 'helper_findings', None)
    if not fs:
        return None
    f = fs[0]
    return ('refuted', 'raw-arithmetic helper is not the field function the transform needs for every representation: %s '
            '(contract-level witness: the operand is a value the producing field operations may deliver)' % f['info'], f['loc'])


def _helper_unknown(I, bad):
    """the result misses the specification while a raw-arithmetic helper was replaced by its multilinear interpolant although
    it is not that polynomial everywhere: the helper may legitimately be another function (not multilinear), so nothing is
    concluded about the routine"""
    f = I.helper_findings[0]
    return ('incomplete', 'a helper computing on raw representations (%s) is not the multilinear polynomial it agrees with at 0/1 operands, '
            'and with that polynomial in its place the result misses the specification (%s): the helper could not be summarised' % (
                f['dem'].split('(')[0], bad[0]), f['loc'])


def log2(n):
    return n.bit_length() - 1


class Runner:
    def __init__(s, cfg='avx2', omp=False, opts=None):
        s.cfg = cfg
        s.omp = omp
        s.opts = opts
        s.worlds = {}
        s.par = []          # parallel-region summaries of the last call (omp mode)
        s.leaks = []

    def world(s, cap, nthreads, ext=1):
        k = (cap, nthreads, ext)
        w = s.worlds.get(k)
        if w is None:
            W = NTTWorld(s.cfg, omp=s.omp, sroa=True, opts=s.opts)
            this = W.construct(cap, nthreads, ext)
            W.I.global_writes = set()       # from here on: process-wide state written by calls (function-local statics, ...)
            w = (W, this, W.snapshot())
            s.worlds[k] = w
        return w

    def run_transform(s, kind, cap, n, ncols, nphase, nblock, buf, dstmode, nthreads, restore=True):
        """kind in ntt|intt ; returns None if fine, else (status, message, site)"""
        W, this, snap = s.world(cap, nthreads)
        if restore:
            W.restore(snap)
        else:
            W.I.reads = []
            W.I.writes = []
        I = W.I
        src = W.buffer('src', n * ncols)
        if dstmode == 'other':
            dst = W.buffer('dst', n * ncols)
            dptr = Ptr(dst, 0)
        elif dstmode == 'src':
            dst = src
            dptr = Ptr(src, 0)
        else:
            dst = src
            dptr = NULL
        ncols_alloc = 0
        if ncols > 0:
            nb = max(1, min(nblock, ncols))
            ncols_alloc = ncols // nb + (1 if ncols % nb else 0)
        bptr = NULL
        if buf:
            b = W.buffer('buffer', n * ncols_alloc, kind='heap')
            bptr = Ptr(b, 0)
        base_heap = list(I.heap)
        I.par_regions = []
        try:
            if kind == 'ntt':
                I.call(W.names['ntt'], [this, dptr, Ptr(src, 0), n, ncols, bptr, nphase, nblock, 0, 0])
            else:
                I.call(W.names['intt'], [this, dptr, Ptr(src, 0), n, ncols, bptr, nphase, nblock, 0])
        except Sink as e:
            return ('refuted', '%s (%s)' % (e, ' <- '.join(e.stack[:2])), e.loc)
        except (Incomplete, IRError) as e:
            return ('incomplete', str(e), None)
        if n == 0 or ncols == 0:
            if I.writes:
                return ('refuted', 'size 0 / zero columns must be a no-op but memory was written', None)
            return None
        w = W.W(log2(n))
        M = dft_matrix(n, w, inverse=(kind == 'intt'))
        exp = expected_forms(M, src.name, ncols, n)
        bad = []
        for (k, c), e in exp.items():
            g = I.mem.get((dst, 8 * (k * ncols + c)))
            if dst is src and g is None:
                g = (FV.atom('%s[%d]' % (src.name, k * ncols + c)), 8)
            if g is None:
                bad.append('out[%d][%d] never written' % (k, c))
            else:
                v = g[0]
                v = FV.const(v) if isinstance(v, int) else v
                if not isinstance(v, FV) or v.nf != e:
                    bad.append('out[%d][%d] is not sum_j in[j][%d]*w^(%sjk)%s' % (k, c, c, '-' if kind == 'intt' else '', '/n' if kind == 'intt' else ''))
            if len(bad) >= 3:
                break
        if bad:
            if getattr(I, 'helper_findings', None):
                return _helper_unknown(I, bad)
            return ('refuted', '; '.join(bad), None)
        if dstmode == 'other' and any(r is src for r, o, sz in I.writes):
            return ('refuted', 'the source buffer is written although the destination is a different buffer', None)
        s.leaks = [r.name for r in W.leaks(base_heap)]      # information only: the property speaks of matching deallocators
        if W.ctx.violations:
            v = W.ctx.violations[0]
            return ('refuted', 'kernel precondition: %s %s' % (v['callee'], v['detail']), None)
        return _helper_findings(I)

    def run_extend(s, capN, N, Next, ncols, nphase, nblock, buf, nthreads, inplace=True, restore=True):
        W, this, snap = s.world(capN, nthreads)
        if restore:
            W.restore(snap)
        else:
            W.I.reads = []
            W.I.writes = []
        I = W.I
        io = W.buffer('io', Next * ncols)
        inp = io
        if inplace:
            io.in_extent = 8 * N * ncols        # rows N..N_ext-1 of an in/out buffer are output-only
        if not inplace:
            inp = W.buffer('input', N * ncols)
        bptr = NULL
        if buf:
            b = W.buffer('buffer', Next * ncols, kind='heap')
            bptr = Ptr(b, 0)
        base_heap = list(I.heap)
        I.par_regions = []
        try:
            I.call(W.names['ext'], [this, Ptr(io, 0), Ptr(inp, 0), Next, N, ncols, bptr, nphase, nblock])
        except Sink as e:
            return ('refuted', '%s (%s)' % (e, ' <- '.join(e.stack[:2])), e.loc)
        except (Incomplete, IRError) as e:
            return ('incomplete', str(e), None)
        M = lde_matrix(N, Next, W.W(log2(N)), W.W(log2(Next)))
        exp = expected_forms(M, inp.name, ncols, N)
        bad = []
        for (k, c), e in exp.items():
            g = I.mem.get((io, 8 * (k * ncols + c)))
            v = g[0] if g else None
            v = FV.const(v) if isinstance(v, int) else v
            if not isinstance(v, FV) or v.nf != e:
                bad.append('out[%d][%d] is not f_%d(7*w_Next^%d)' % (k, c, c, k))
                if len(bad) >= 3:
                    break
        if bad:
            if getattr(I, 'helper_findings', None):
                return _helper_unknown(I, bad)
            return ('refuted', '; '.join(bad), None)
        if not inplace and any(r is inp for r, o, sz in I.writes):
            return ('refuted', 'the input buffer is written although the output is a different buffer', None)
        s.leaks = [r.name for r in W.leaks(base_heap) if r.alloc == 'malloc']      # information only
        return _helper_findings(I)


THRESHOLD_NOTES = {}


def threshold_notes(rep, key):
    """say which new constants steered the shape grid, and which are beyond the explorable sizes"""
    t = THRESHOLD_NOTES.get(key)
    if not t:
        return
    ths, skipped, n = t
    if ths:
        rep.note('threshold-directed shapes: the code has integer constants the pinned tree did not have %s; %d shapes on both sides of them were added to the grid' % (ths, n))
    if skipped:
        rep.note('NOT DECIDED: constants %s are beyond the sizes this tier can explore; behaviour of shapes above them is not analysed' % skipped)
    rep.cov['new_thresholds'] = list(ths)


def ntt_configs(tier, seed=0):
    """(cap, n, ncols, nphase, nblock, buf, dstmode, nthreads)"""
    out = []
    caps = [1, 2, 4, 8, 16, 32] if tier == 'quick' else [1, 2, 4, 8, 16, 32, 64, 128]
    for cap in caps:
        n = 1
        while n <= cap:
            for ncols in ([1, 3] if tier == 'quick' else [1, 2, 3, 5]):
                for nphase in ([0, 1, 2, 3, 5] if tier == 'quick' else range(0, 8)):
                    if nphase > log2(n) + 1 and nphase != 7 and tier != 'quick':
                        continue
                    for nblock in sorted({0, 1, 2, ncols, ncols + 1}):
                        for buf in (False, True):
                            for dstmode in ('src', 'other', 'null'):
                                for nthreads in ((1,) if tier == 'quick' else (1, 3)):
                                    out.append((cap, n, ncols, nphase, nblock, buf, dstmode, nthreads))
            n *= 2
    if tier == 'quick':
        # deterministic thinning: keep every configuration of the small shapes, one third of the larger ones
        keep = []
        for i, c in enumerate(out):
            if c[0] <= 8 or (i + seed) % 2 == 0:
                keep.append(c)
        out = keep
    # wide grid: many column counts (all residues mod 4 and 8, both sides of the SIMD widths) on small transforms
    for ncols in (2, 4, 5, 6, 7, 8, 9, 10, 12, 13, 16, 17):
        for cap, n in ((4, 4), (8, 4), (8, 8), (2, 2)):
            for nphase in (1, 3):
                for nblock in (1, 2, 3, ncols):
                    for buf, dstmode in ((False, 'other'), (True, 'src'), (True, 'null')):
                        out.append((cap, n, ncols, nphase, nblock, buf, dstmode, 1))
    # large sizes (several phases really merge stages, batches are long): a few settings each
    big = [(64, 64), (128, 64), (128, 128), (256, 256), (512, 256)] if tier == 'quick' else [(64, 64), (256, 64), (256, 256), (1024, 512), (1024, 1024), (2048, 2048), (4096, 4096)]
    for cap, n in big:
        for ncols, nphase, nblock, buf, dstmode in ((1, 3, 1, False, 'other'), (2, 0, 2, True, 'src'), (3, 2, 1, False, 'src'), (1, 1, 1, True, 'null'),
                                                    (2, 4, 3, False, 'other'), (5, 5, 2, True, 'other')):
            out.append((cap, n, ncols, nphase, nblock, buf, dstmode, 1))
    # very wide matrices with a tiny transform (cost is linear in the columns): a column slice, a tile or a stack buffer of a few
    # hundred elements shows here even when no new constant gives it away
    for ncols in ((131, 1031) if tier == 'quick' else (131, 520, 1031)):
        for n, nphase, nblock, buf, dstmode in ((2, 2, 1, False, 'src'), (2, 3, 1, False, 'other'), (4, 2, 2, True, 'src')):
            out.append((n, n, ncols, nphase, nblock, buf, dstmode, 1))
    # objects built for several threads, interpreted with a team of ONE abstract thread (OpenMP never promises the team that was
    # asked for): work-sharing loops still cover every iteration; a hand-made partition that divides by the requested thread count
    # but indexes by the thread number loses the slabs of the threads that are not there
    if tier == 'quick':
        for cap, n in ((8, 8), (16, 16), (16, 4)):
            for ncols, nphase, nblock, buf, dstmode in ((3, 2, 1, False, 'src'), (3, 3, 1, False, 'other'), (5, 2, 2, True, 'null'), (1, 1, 1, False, 'src')):
                for nthreads in (2, 3):
                    out.append((cap, n, ncols, nphase, nblock, buf, dstmode, nthreads))
    # threshold-directed shapes: both sides of every integer constant the transform code has that the pinned tree did not
    from . import thresholds
    extra, skipped = thresholds.ntt_extra(thresholds.new_thresholds('ntt'), tier)
    out += extra
    THRESHOLD_NOTES['ntt'] = (thresholds.new_thresholds('ntt'), skipped, len(extra))
    # degenerate shapes
    for cap in (4,):
        out.append((cap, 0, 2, 3, 1, False, 'other', 1))
        out.append((cap, 4, 0, 3, 1, False, 'other', 1))
        out.append((cap, 0, 0, 0, 0, True, 'null', 1))
        out.append((cap, 4, 2, 2 ** 64 - 1, 2 ** 64 - 1, False, 'src', 1))
    return out


def ext_configs(tier, seed=0):
    """(capN, N, Next, ncols, nphase, nblock, buf, nthreads, inplace)"""
    out = []
    maxext = 32 if tier == 'quick' else 128
    N = 1
    while N <= maxext:
        Next = N
        while Next <= maxext:
            for capN in sorted({N, 2 * N} if tier == 'quick' else {N, 2 * N, 8 * N}):
                for ncols in ([1, 3] if tier == 'quick' else [1, 2, 5]):
                    for nphase in ([0, 1, 2, 3] if tier == 'quick' else range(0, 7)):
                        for nblock in (0, 1, 2, ncols + 1):
                            for buf in (False, True):
                                for inplace in (True, False):
                                    out.append((capN, N, Next, ncols, nphase, nblock, buf, 1 if tier == 'quick' else 3, inplace))
            Next *= 2
        N *= 2
    if tier == 'quick':
        out = [c for i, c in enumerate(out) if c[2] <= 8 or (i + seed) % 3 == 0]
    big = [(64, 64, 128), (64, 64, 256), (128, 128, 128), (256, 128, 512)] if tier == 'quick' else [(64, 64, 256), (256, 256, 1024), (512, 512, 2048), (1024, 1024, 4096)]
    for capN, N, Next in big:
        for ncols, nphase, nblock, buf, inplace in ((1, 3, 1, False, True), (2, 2, 1, False, True), (3, 0, 2, True, False), (1, 4, 1, True, True), (2, 1, 3, False, False)):
            out.append((capN, N, Next, ncols, nphase, nblock, buf, 1, inplace))
    for ncols in ((131, 1031) if tier == 'quick' else (131, 520, 1031)):
        for N, Next, nphase, nblock, buf, inplace in ((2, 4, 2, 1, False, True), (2, 4, 3, 1, True, False), (1, 2, 2, 1, False, True), (2, 4, 2, 2, False, True)):
            out.append((max(N, 2), N, Next, ncols, nphase, nblock, buf, 1, inplace))
    if tier == 'quick':
        # objects built for several threads under a team of one abstract thread (see ntt_configs)
        for capN, N, Next in ((8, 8, 16), (16, 4, 16), (8, 8, 8)):
            for ncols, nphase, nblock, buf, inplace in ((3, 2, 1, False, True), (3, 3, 1, True, False), (5, 2, 2, False, True)):
                for nthreads in (2, 3):
                    out.append((capN, N, Next, ncols, nphase, nblock, buf, nthreads, inplace))
    from . import thresholds
    extra, skipped = thresholds.ext_extra(thresholds.new_thresholds('ntt'), tier)
    out += extra
    THRESHOLD_NOTES['ext'] = (thresholds.new_thresholds('ntt'), skipped, len(extra))
    for ncols in (2, 4, 5, 6, 7, 8, 9, 12, 13, 17):
        for capN, N, Next in ((4, 4, 8), (2, 2, 8), (4, 4, 4), (8, 4, 16)):
            for nphase in (1, 2, 3):
                for nblock in (1, 2, 3, ncols):
                    for buf in (False, True):
                        out.append((capN, N, Next, ncols, nphase, nblock, buf, 1, True))
    return out


def describe_ntt(c):
    cap, n, ncols, nphase, nblock, buf, dstmode, nthreads = c
    return 'capacity=%d size=%d ncols=%d nphase=%d nblock=%d buffer=%s dst=%s nThreads=%d' % (
        cap, n, ncols, nphase, nblock, 'caller' if buf else 'NULL', dstmode, nthreads)


def describe_ext(c):
    capN, N, Next, ncols, nphase, nblock, buf, nthreads, inplace = c
    return 'capacity=%d N=%d N_ext=%d ncols=%d nphase=%d nblock=%d buffer=%s nThreads=%d %s' % (
        capN, N, Next, ncols, nphase, nblock, 'caller' if buf else 'NULL', nthreads, 'in place' if inplace else 'separate input')


def _worker(args):
    kind, cfgs, cfgname = args[:3]
    R = Runner(cfgname, *args[3:])
    out = []
    for c in cfgs:
        try:
            if kind in ('ntt', 'intt'):
                r = R.run_transform(kind, *c)
            else:
                r = R.run_extend(*c)
        except Exception as e:      # engine failure: incomplete, never a verdict
            r = ('incomplete', 'engine: %s: %s' % (type(e).__name__, str(e)[:200]), None)
        out.append((c, r))
    return out


def run_parallel(kind, cfgs, cfgname='avx2', nproc=None, omp=False, opts=None):
    import multiprocessing as mp
    nproc = nproc or min(16, os.cpu_count() or 4)
    if len(cfgs) < 64 or nproc == 1:
        return _worker((kind, cfgs, cfgname, omp, opts))
    chunks = [cfgs[i::nproc] for i in range(nproc)]
    with mp.Pool(nproc) as pool:
        res = pool.map(_worker, [(kind, ch, cfgname, omp, opts) for ch in chunks])
    out = []
    for r in res:
        out += r
    return out


def record(rep, kind, results, describe, rule):
    groups = {}
    for c, r in results:
        tag = '%s:%s' % (kind, describe(c))
        if r is None:
            rep.ok(tag, rule, 'src/ntt_goldilocks.cpp', 'all output cells have the specified coefficient vectors; source untouched; extents respected; allocations released')
        else:
            st, msg, loc = r
            site = '%s:%s' % (front.rel(loc[0]), loc[1]) if loc and loc[0] else 'src/ntt_goldilocks.cpp'
            (rep.refute if st == 'refuted' else rep.incomplete)(tag, rule, site, msg)


# ---------------------------------------------------------------------------------------------------------------------
# Tables of the transform object for sizes far beyond the symbolic tier: the constructor and computeR are interpreted on
# concrete capacities (constant propagation: no symbolic data is involved), and every table entry is compared with its
# closed form.  A blocked / tiled / parallelised table computation that goes wrong beyond some size is seen here.
def member_offsets(mod):
    from . import rules, ir
    fields = rules.class_fields(mod)
    out = {}
    for i, nm in fields.items():
        off, ft = ir.field_offset(mod, ('s', '%class.' + rules.CLS), i)
        out[nm] = off
    return out


def _table_worker(args):
    cfg, cap, ns = args
    from .poly import P, FV
    out = []
    try:
        W = NTTWorld(cfg, omp=False, sroa=True)
        this = W.construct(cap, 1, 1)
        I = W.I
        offs = member_offsets(W.mod)

        def table(name, n):
            c = I.mem.get((this.reg, offs[name])) if name in offs else None
            ptr = c[0] if c else None
            if not isinstance(ptr, Ptr):
                return None
            vals = []
            for i in range(n):
                g = I.mem.get((ptr.reg, ptr.off + 8 * i))
                v = g[0] if g else None
                if isinstance(v, FV) and v.nf.isconst():
                    v = v.nf.cval()
                vals.append(v % P if isinstance(v, int) else v)
            return vals
        k = cap.bit_length() - 1
        w = W.W(k)
        bad = []
        roots = table('roots', cap)
        if roots is None or table('powTwoInv', k + 1) is None:
            out.append(('ctor capacity=%d' % cap, None, 'the members roots / powTwoInv were not identified'))
            return out
        else:
            acc = 1
            for i in range(cap):
                if roots[i] != acc:
                    bad.append('roots[%d] is not w^%d (w = W[%d])' % (i, i, k))
                    break
                acc = acc * w % P
        pti = table('powTwoInv', k + 1)
        if pti is None:
            bad.append('powTwoInv table not found')
        else:
            for i in range(k + 1):
                if pti[i] != pow(pow(2, i, P), P - 2, P):
                    bad.append('powTwoInv[%d] is not 2^-%d' % (i, i))
                    break
        out.append(('ctor capacity=%d' % cap, bad))
        try:
            cr = W.mod.find_re(r'^NTT_Goldilocks::computeR\(')
        except Exception:
            cr = []
        if not cr:
            # renamed: the method (this, N) that writes the members r and r_ itself
            from . import rules as _rules
            fields = _rules.class_fields(W.mod)
            want = {i for i, nm in fields.items() if nm in ('r', 'r_')}
            for n_ in _rules.own_methods(W.mod):
                if re.search(r'\(unsigned long\)$', W.mod.dem[n_]) and want and want <= set(_rules.field_writes(W.mod, n_)):
                    cr.append(n_)
            if len(cr) != 1:
                out.append(('computeR', None, 'the routine that fills the coset tables r / r_ was not identified (not computeR by name, no single method (N) writing both members)'))
                return out
        for N in ns:
            bad = []
            if True:
                I.call(cr[0], [this, N])
                r = table('r', N)
                r_ = table('r_', N)
                ninv = pow(N, P - 2, P)
                if r is None or r_ is None:
                    out.append(('computeR capacity=%d N=%d' % (cap, N), None, 'the members r / r_ were not identified'))
                    continue
                else:
                    acc = 1
                    for i in range(N):
                        if r[i] != acc:
                            bad.append('r[%d] is not 7^%d' % (i, i))
                            break
                        if r_[i] != acc * ninv % P:
                            bad.append('r_[%d] is not 7^%d / %d' % (i, i, N))
                            break
                        acc = acc * 7 % P
            out.append(('computeR capacity=%d N=%d' % (cap, N), bad))
    except Sink as e:
        out.append(('tables capacity=%d' % cap, ['%s' % e]))
    except (Incomplete, IRError, KeyError) as e:
        out.append(('tables capacity=%d' % cap, None, str(e)))
    return out


def check_tables(rep, tier, rule='transform-tables'):
    from . import thresholds
    import multiprocessing as mp
    caps = [1, 2, 4, 64, 1024, 4096, 8192, 16384] if tier == 'quick' else [1 << k for k in range(0, 18)]
    for c in thresholds.new_thresholds('ntt'):
        p2 = thresholds.pow2_at_least(c)
        for n in (p2, 2 * p2, 4 * p2, 8 * p2):
            if n <= (1 << 16) and n not in caps:
                caps.append(n)
    jobs = []
    for cap in sorted(caps):
        ns = sorted({1, cap, max(1, cap // 2), max(1, cap // 8)})
        jobs.append(('avx2', cap, ns))
    with mp.Pool(min(16, len(jobs))) as pool:
        res = pool.map(_table_worker, jobs)
    n = 0
    for rs in res:
        for r in rs:
            n += 1
            tag = 'tables:' + r[0]
            if len(r) == 3:
                rep.incomplete(tag, rule, 'src/ntt_goldilocks.hpp', r[2])
            elif r[1]:
                rep.refute(tag, rule, 'src/ntt_goldilocks.hpp', '; '.join(r[1][:3]))
            else:
                rep.ok(tag, rule, 'src/ntt_goldilocks.hpp', 'every entry equals its closed form (roots = w^i, powTwoInv = 2^-i, r = 7^i, r_ = 7^i/N)')
    rep.cov['table_capacities'] = sorted(caps)
    return n
