"""Bounded-shape analysis of the transform object (DESIGN §3.6): constructor, NTT, INTT, extendPol, destructor are
interpreted on the real IR with concrete shape parameters while all matrix entries stay symbolic (linear forms over
the input atoms); results are compared with the DFT / inverse DFT / coset-LDE coefficient matrices."""
import re
from . import front, contracts
from .interp import Interp, Region, Ptr, NULL, Incomplete, Sink, run_global_ctors, BUILTINS
from .poly import Poly, FV, C, P, M64

E = 'Goldilocks::Element'
SIG_CTOR = 'NTT_Goldilocks::NTT_Goldilocks(unsigned long, unsigned int, int)'
SIG_DTOR = 'NTT_Goldilocks::~NTT_Goldilocks()'
SIG_NTT = 'NTT_Goldilocks::NTT(%s*, %s*, unsigned long, unsigned long, %s*, unsigned long, unsigned long, bool, bool)' % (E, E, E)
SIG_INTT = 'NTT_Goldilocks::INTT(%s*, %s*, unsigned long, unsigned long, %s*, unsigned long, unsigned long, bool)' % (E, E, E)
SIG_EXT = 'NTT_Goldilocks::extendPol(%s*, %s*, unsigned long, unsigned long, unsigned long, %s*, unsigned long, unsigned long)' % (E, E, E)


# ---- GMP entry points used by the constructor, on Python integers
def gmp_summaries():
    def key(p):
        return (p.reg, p.off)

    def get(I, p):
        try:
            return I.gmp[key(p)]
        except KeyError:
            raise Incomplete('use of an uninitialised mpz_t')

    def setv(I, p, v):
        if key(p) not in I.gmp:
            raise Incomplete('write to an mpz_t that was not initialised')
        I.gmp[key(p)] = v

    def init(I, a, ins):
        I.gmp[key(a[0])] = 0

    def clear(I, a, ins):
        if key(a[0]) not in I.gmp:
            I.sink('dealloc', 'mpz_clear of an uninitialised mpz_t')
        del I.gmp[key(a[0])]

    def import_(I, a, ins):
        rop, count, order, size, endian, nails, op = a
        if not (count == 1 and size == 8 and nails == 0):
            raise Incomplete('mpz_import shape')
        v = I.load_cell(op, 8)
        if not isinstance(v, int):
            raise Incomplete('mpz_import of symbolic data')
        setv(I, rop, v)

    def powm(I, a, ins):
        setv(I, a[0], pow(get(I, a[1]), get(I, a[2]), get(I, a[3])))

    def invert(I, a, ins):
        x, m = get(I, a[1]), get(I, a[2])
        try:
            setv(I, a[0], pow(x, -1, m))
            return 1
        except ValueError:
            return 0
    S = {
        '__gmpz_init': init, '__gmpz_clear': clear, '__gmpz_import': import_, '__gmpz_powm': powm, '__gmpz_invert': invert,
        '__gmpz_add_ui': lambda I, a, ins: setv(I, a[0], get(I, a[1]) + a[2]),
        '__gmpz_fdiv_q_2exp': lambda I, a, ins: setv(I, a[0], get(I, a[1]) >> a[2]),
        '__gmpz_set_ui': lambda I, a, ins: setv(I, a[0], a[1]),
        '__gmpz_set': lambda I, a, ins: setv(I, a[0], get(I, a[1])),
        '__gmpz_cmp_ui': lambda I, a, ins: ((get(I, a[0]) > a[1]) - (get(I, a[0]) < a[1])) & 0xFFFFFFFF,
        '__gmpz_tstbit': lambda I, a, ins: (get(I, a[0]) >> a[1]) & 1,
        '__gmpz_get_ui': lambda I, a, ins: get(I, a[0]) & (M64 - 1),
    }
    return S


class NTTWorld:
    """one interpreter holding a constructed transform object"""

    def __init__(s, cfg='avx2', omp=False, sroa=True, opts=None):
        s.mod = front.module(cfg, omp=omp, sroa=sroa)
        s.ctx = contracts.Ctx()
        summ, _ = contracts.wrapper_summaries(s.mod, s.ctx)
        summ.update(gmp_summaries())
        from . import rawhelper
        o = {'log_access': True, 'omp_max_threads': 4, 'raw_helper': rawhelper.decide}
        o.update(opts or {})
        s.I = Interp(s.mod, summ, o)
        s.I.gmp = {}
        run_global_ctors(s.I)
        s.names = {k: s.mod.find(v) for k, v in (('ctor', SIG_CTOR), ('dtor', SIG_DTOR), ('ntt', SIG_NTT), ('intt', SIG_INTT), ('ext', SIG_EXT))}
        s.cls_size = None
        s.nreg = 0

    def W(s, i):
        g = [n for n in s.mod._globtxt if n.startswith('@_ZN10Goldilocks1WE')]
        r = s.I.global_region(g[0])
        v = s.I.mem[(r, 8 * i)][0]
        if isinstance(v, FV):
            v = v.nf.cval()
        return v

    def construct(s, max_domain, nthreads=1, extension=1):
        from .ir import sizeof
        sz = sizeof(s.mod, ('s', '%class.NTT_Goldilocks'))
        obj = s.I.new_region('ntt_object', 'alloca', extent=sz)
        s.I.call(s.names['ctor'], [Ptr(obj, 0), max_domain, nthreads, extension])
        return Ptr(obj, 0)

    def destroy(s, this):
        s.I.call(s.names['dtor'], [this])

    def buffer(s, name, nelem, kind='param'):
        s.nreg += 1
        if kind == 'param':
            return Region('%s%d' % (name, s.nreg), 'param', extent=8 * nelem, elem='field')
        r = s.I.new_region(name, 'heap', extent=8 * nelem, alloc='caller')
        return r

    def snapshot(s):
        return (dict(s.I.mem), list(s.I.heap), [(r, r.freed) for r in s.I.heap], dict(s.I.gmp), dict(s.I.globals), set(s.I.global_writes))

    def restore(s, snap):
        mem, heap, freed, gmp, globs, gw = snap
        s.I.mem = dict(mem)
        s.I.globals = dict(globs)           # a global first touched after the snapshot is re-initialised when touched again
        s.I.global_writes = set(gw)
        s.I.heap = list(heap)
        for r, f in freed:
            r.freed = f
        s.I.gmp = dict(gmp)
        s.I.reads = []
        s.I.writes = []
        s.I.events = []
        if hasattr(s.I, '_written'):
            s.I._written = {}
        s.ctx.violations.clear()

    def leaks(s, base_heap):
        return [r for r in s.I.heap if r not in base_heap and not r.freed and r.alloc in ('malloc', 'new', 'new[]')]


def powm(a, e):
    return pow(a, e % (P - 1), P) if a % P else 0


def dft_matrix(n, w, inverse=False):
    """M[k][j] with out[k] = sum_j M[k][j] in[j]"""
    if inverse:
        w = pow(w, P - 2, P)
        ninv = pow(n, P - 2, P)
    M = []
    for k in range(n):
        row = []
        for j in range(n):
            v = pow(w, (j * k) % n, P)
            if inverse:
                v = v * ninv % P
            row.append(v)
        M.append(row)
    return M


def lde_matrix(N, Next, wN, wNext, shift=7):
    """M[k][j]: out[k] = f(shift*wNext^k) where f interpolates in[j] at wN^j (degree < N)"""
    ninv = pow(N, P - 2, P)
    winv = pow(wN, P - 2, P)
    M = []
    for k in range(Next):
        x = shift * pow(wNext, k, P) % P
        row = []
        for j in range(N):
            r = x * pow(winv, j, P) % P       # x / wN^j
            # (1/N) * sum_{i<N} r^i
            acc = 0
            t = 1
            for i in range(N):
                acc = (acc + t) % P
                t = t * r % P
            row.append(acc * ninv % P)
        M.append(row)
    return M


def expected_forms(M, src_name, ncols, nin):
    """Poly normal forms of out[k][c] = sum_j M[k][j] * src[j*ncols + c]"""
    out = {}
    for k, row in enumerate(M):
        for c in range(ncols):
            d = {}
            for j in range(nin):
                if row[j]:
                    d[(('%s[%d]' % (src_name, j * ncols + c), 1),)] = row[j]
            out[(k, c)] = Poly(d, True)
    return out
