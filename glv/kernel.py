"""Kernel mode (DESIGN §3.3): abstract interpretation of the arithmetic kernels on exact integer values.

A 64-bit lane is a polynomial with integer coefficients over bounded symbols (32-bit limbs of the inputs, fresh
quotient symbols for shifts/masks) together with an interval.  `add`/`sub` that may leave [0,2^64) partition the
abstract state on the carry / borrow; comparisons are decided per cell from the interval of the difference
polynomial.  Vectors are per-element lists in which only the elements of the lane under analysis are tracked
(None = another lane: never allowed to flow into the tracked lane).  Nothing is executed and no solver is used;
the analysis may answer "undecided" (ANALYSIS-INCOMPLETE).
"""
import re
from . import ir
from .ir import IRError
from .poly import Poly, C, P, M64, M32, MSB


class Undecided(Exception):
    pass


class KV:
    """w-bit unsigned value: exact polynomial p, interval [lo,hi]; sh=1: the register holds value xor 2^63"""
    __slots__ = ('p', 'lo', 'hi', 'sh', 'prov', 'w')

    def __init__(s, p, lo, hi, sh=0, prov=None, w=64):
        s.p = p
        s.lo = lo
        s.hi = hi
        s.sh = sh
        s.prov = prov
        s.w = w

    def isconst(s):
        return s.lo == s.hi and s.p.isconst()

    def cval(s):
        return s.lo

    def __repr__(s):
        ps = str(s.p)
        return 'KV(%s%s in [%d,%d])' % ('s:' if s.sh else '', ps if len(ps) < 80 else ps[:77] + '...', s.lo, s.hi)


def const(k, w=64):
    return KV(C(k), k, k, 0, None, w)


class Mask:
    """all-ones (b=True) / zero (b=False) lane of width w"""
    __slots__ = ('b', 'w')

    def __init__(s, b, w=64):
        s.b = b
        s.w = w

    def __repr__(s):
        return 'Mask%d(%s)' % (s.w, s.b)


class UnkBool:
    """result of a comparison the caller does not depend on (low halves in 32-bit emulations of 64-bit compares)"""

    def __repr__(s):
        return 'unk'


UNK = UnkBool()


class Case:
    def __init__(s, box=None, cons=None, subst=None):
        s.box = dict(box or {})
        s.cons = list(cons or [])
        s.subst = list(subst or [])     # (symbol, definition poly, exact?) applied at the end, latest first
        s.n = 0
        s.cache = {}                    # (poly key, bit) -> (q, r) split results
        s.notes = []
        s.defs = []                     # how derived symbols are computed from earlier ones (for witness search)

    def copy(s):
        c = Case(s.box, s.cons, s.subst)
        c.n = s.n
        c.cache = dict(s.cache)
        c.notes = list(s.notes)
        c.defs = list(s.defs)
        return c

    def __getstate__(s):
        return s.__dict__

    def fresh(s, name, lo, hi):
        s.n += 1
        v = '%s%d' % (name, s.n)
        s.box[v] = (lo, hi)
        return v

    def _pinned_cons(s):
        pins = {x: Poly.const(l) for x, (l, h) in s.box.items() if l == h}
        key = (len(s.cons), tuple(sorted(pins)))
        if getattr(s, '_pc_key', None) != key:
            out = []
            for q, op in s.cons:
                if pins and (q.vars() & set(pins)):
                    q = q.subst({x: pins[x] for x in q.vars() if x in pins})
                out.append((q, op))
            s._pc = out
            s._pc_key = key
        return s._pc

    def _direct(s, p, lo=None, hi=None):
        """interval of p: box evaluation refined by constraints of the form +-p + const"""
        pins = {x: Poly.const(l_) for x, (l_, h_) in s.box.items() if l_ == h_ and x in p.vars()}
        if pins:
            p = p.subst(pins)
        l, h = p.rng(s.box)
        if lo is not None:
            l = max(l, lo)
        if hi is not None:
            h = min(h, hi)
        if p.isconst():
            return l, h
        np_ = len(p.d)
        for q, op in s._pinned_cons():
            nq = len(q.d)
            if nq > np_ + 1 or nq < np_ - 1:
                continue
            for sg in (1, -1):
                diff = q - p * sg
                if diff.isconst():
                    beta = diff.d.get((), 0)
                    if op == '>=0':
                        if sg == 1:
                            l = max(l, -beta)
                        else:
                            h = min(h, beta)
                    elif op == '<0':
                        if sg == 1:
                            h = min(h, -beta - 1)
                        else:
                            l = max(l, beta + 1)
        return l, h

    def bound(s, p, lo=None, hi=None):
        """_direct, plus: if a constrained linear form L is a sub-sum of p, bound(p) <= bound(L) + bound(p - L)"""
        l, h = s._direct(p, lo, hi)
        if len(p.d) < 3:
            return l, h
        seen = set()
        for q, op in s._pinned_cons():
            L = Poly({m: c for m, c in q.d.items() if m != ()}, True)
            if len(L.d) < 2 or len(L.d) >= len(p.d):
                continue
            k = L.key()
            if k in seen:
                continue
            seen.add(k)
            for sg in (1, -1):
                sL = L * sg
                r = p - sL
                if len(r.d) <= len(p.d) - len(L.d):
                    ll, lh = s._direct(sL)
                    rl, rh = s._direct(r)
                    l = max(l, ll + rl)
                    h = min(h, lh + rh)
        return l, h

    def tighten(s):
        """interval propagation over the linear constraints: narrows symbol boxes (sound, never widens)"""
        for _ in range(4):
            changed = False
            for q, op in s.cons:
                if any(len(m) != 1 or m[0][1] != 1 for m in q.d if m != ()):
                    continue
                k0 = q.d.get((), 0)
                terms = [(m[0][0], c) for m, c in q.d.items() if m != ()]
                # q >= 0  or  q <= -1
                for x, cx in terms:
                    rest_lo = rest_hi = 0
                    for y, cy in terms:
                        if y == x:
                            continue
                        l, h = s.box[y]
                        if cy > 0:
                            rest_lo += cy * l
                            rest_hi += cy * h
                        else:
                            rest_lo += cy * h
                            rest_hi += cy * l
                    l, h = s.box[x]
                    if op == '>=0':
                        # cx*x >= -k0 - rest_hi
                        bnd = -k0 - rest_hi
                        if cx > 0:
                            nl = -((-bnd) // cx)
                            if nl > l:
                                l = nl
                                changed = True
                        else:
                            nh = bnd // cx if bnd % cx == 0 else -((-bnd) // (-cx)) * -1
                            nh = (-bnd) // (-cx)
                            if nh < h:
                                h = nh
                                changed = True
                    else:
                        # cx*x <= -1 - k0 - rest_lo
                        bnd = -1 - k0 - rest_lo
                        if cx > 0:
                            nh = bnd // cx
                            if nh < h:
                                h = nh
                                changed = True
                        else:
                            nl = -(bnd // (-cx))
                            if nl > l:
                                l = nl
                                changed = True
                    if l > h:
                        s.box[x] = (l, h)
                        return False
                    s.box[x] = (l, h)
            if not changed:
                break
        return True

    def fm_infeasible(s, limit=4000):
        """polyhedral emptiness: Fourier-Motzkin elimination over the linear constraints and the symbol boxes, with
        integer tightening (coefficients divided by their gcd, constant floored).  Non-linear constraints are left out
        (a relaxation), so True is a sound 'no integer point satisfies the case'; False says nothing."""
        from math import gcd
        rows = {}

        def add(coef, k):
            coef = {x: c for x, c in coef.items() if c}
            if not coef:
                return k >= 0
            g = 0
            for c in coef.values():
                g = gcd(g, abs(c))
            if g > 1:
                coef = {x: c // g for x, c in coef.items()}
                k = k // g                     # floor: sum(c_i x_i) >= -k/g and the left side is an integer
            key = tuple(sorted(coef.items(), key=lambda kv: (str(kv[0]), kv[1])))
            old = rows.get(key)
            if old is None or k < old:
                rows[key] = k
            return True
        pins = {x: l for x, (l, h) in s.box.items() if l == h}
        used = set()
        mono = {}
        for q, op in s.cons:
            if pins and (q.vars() & set(pins)):
                q = q.subst({x: Poly.const(pins[x]) for x in q.vars() if x in pins})
            coef = {}
            k = 0
            for m, c in q.d.items():
                if m == ():
                    k += c
                elif len(m) == 1 and m[0][1] == 1:
                    coef[m[0][0]] = coef.get(m[0][0], 0) + c
                else:
                    # a non-linear monomial is abstracted by an opaque symbol ranging over the monomial's interval
                    # (its relation to its factors is forgotten: a relaxation)
                    nm = mono.get(m)
                    if nm is None:
                        nm = mono[m] = ('mono', m)
                    coef[nm] = coef.get(nm, 0) + c
            if op == '<0':
                coef = {x: -c for x, c in coef.items()}
                k = -k - 1
            used |= set(coef)
            if not add(coef, k):
                return True
        for x in used:
            if isinstance(x, tuple):
                l, h = Poly({x[1]: 1}).rng(s.box)
            else:
                l, h = s.box[x]
            add({x: 1}, -l)
            add({x: -1}, h)
        while True:
            vs = {}
            for key in rows:
                for x, c in key:
                    a = vs.setdefault(x, [0, 0])
                    a[0 if c > 0 else 1] += 1
            if not vs:
                return False
            x = min(vs, key=lambda v: vs[v][0] * vs[v][1] - vs[v][0] - vs[v][1])
            pos, neg, rest = [], [], {}
            for key, k in rows.items():
                d = dict(key)
                c = d.get(x)
                if c is None:
                    rest[key] = k
                elif c > 0:
                    pos.append((d, k, c))
                else:
                    neg.append((d, k, -c))
            if len(pos) * len(neg) + len(rest) > limit:
                return False
            rows = rest
            for dp, kp, cp in pos:
                for dn, kn, cn in neg:
                    g = gcd(cp, cn)
                    mp, mn = cn // g, cp // g
                    coef = {}
                    for y, c in dp.items():
                        if y != x:
                            coef[y] = coef.get(y, 0) + c * mp
                    for y, c in dn.items():
                        if y != x:
                            coef[y] = coef.get(y, 0) + c * mn
                    if not add(coef, kp * mp + kn * mn):
                        return True

    def feasible(s):
        if not s.tighten():
            return False
        for p, op in s.cons:
            l, h = s.bound(p)
            if l > h:
                return False
            if op == '>=0' and h < 0:
                return False
            if op == '<0' and l >= 0:
                return False
        return True


def mk(c, p, lo, hi, **k):
    l, h = c.bound(p, lo, hi)
    return KV(p, l, h, **k)


def wrap_add(c, x, y, w=64):
    M = 1 << w
    p = x.p + y.p
    v = mk(c, p, x.lo + y.lo, x.hi + y.hi)
    if v.hi < M:
        return [(c, KV(p, v.lo, v.hi, w=w), 0)]
    if v.lo >= M:
        return [(c, KV(p - M, v.lo - M, v.hi - M, w=w), 1)]
    out = []
    c0 = c.copy()
    c0.cons.append((p - M, '<0'))
    if c0.feasible():
        out.append((c0, KV(p, v.lo, M - 1, w=w), 0))
    c1 = c.copy()
    c1.cons.append((p - M, '>=0'))
    if c1.feasible():
        out.append((c1, KV(p - M, 0, v.hi - M, w=w), 1))
    return out


def wrap_sub(c, x, y, w=64):
    M = 1 << w
    p = x.p - y.p
    v = mk(c, p, x.lo - y.hi, x.hi - y.lo)
    if v.lo >= 0:
        return [(c, KV(p, v.lo, v.hi, w=w), 0)]
    if v.hi < 0:
        return [(c, KV(p + M, v.lo + M, v.hi + M, w=w), 1)]
    out = []
    c0 = c.copy()
    c0.cons.append((p, '>=0'))
    if c0.feasible():
        out.append((c0, KV(p, 0, v.hi, w=w), 0))
    c1 = c.copy()
    c1.cons.append((p, '<0'))
    if c1.feasible():
        out.append((c1, KV(p + M, v.lo + M, M - 1, w=w), 1))
    return out


def gsplit(c, v, k):
    """v = 2^k q + r (mutates case c: cached, possibly a fresh quotient symbol with its defining constraints)"""
    key = (v.p.key(), k)
    r = c.cache.get(key)
    if r is not None:
        return r
    if v.hi < (1 << k):
        res = (const(0), KV(v.p, v.lo, v.hi))
    elif v.isconst():
        res = (const(v.cval() >> k), const(v.cval() & ((1 << k) - 1)))
    else:
        res = None
        # syntactic split p = 2^k*A + B: coefficients divisible by 2^k go to A entirely (any sign), the others must be
        # positive and are split bitwise; if B is provably in [0,2^k) then floor(p/2^k) = A exactly
        K2 = 1 << k
        Ad, Bd = {}, {}
        okk = True
        for m, co in v.p.d.items():
            if co % K2 == 0:
                Ad[m] = co // K2
            elif co > 0:
                if co >> k:
                    Ad[m] = co >> k
                Bd[m] = co & (K2 - 1)
            else:
                okk = False
                break
        if okk:
            A = Poly(Ad)
            B = Poly(Bd)
            bl, bh = c.bound(B)
            if bl >= 0 and bh < K2:
                al, ah = c.bound(A)
                res = (KV(A, max(al, v.lo >> k), min(ah, v.hi >> k)), KV(B, bl, bh))
        if res is None:
            q = c.fresh('q', v.lo >> k, v.hi >> k)
            c.defs.append(('shr', q, v.p, k))
            qp = Poly.var(q)
            r_ = v.p - (1 << k) * qp
            c.cons.append((r_, '>=0'))
            c.cons.append((r_ - (1 << k), '<0'))
            res = (KV(qp, v.lo >> k, v.hi >> k), KV(r_, 0, (1 << k) - 1))
    c.cache[key] = res
    return res


def limbs(c, v):
    """[(case, (H, L))]: 32-bit limbs of the value v; for sums/differences the limb carry is partitioned"""
    key = (v.p.key(), 32)
    if key in c.cache:
        return [(c, c.cache[key])]
    if v.prov and v.prov[0] in ('add', 'sub'):
        op, x, y, carry = v.prov
        res = []
        for c1, (xh, xl) in limbs(c, x):
            for c2, (yh, yl) in limbs(c1, y):
                f = wrap_add if op == 'add' else wrap_sub
                for c3, l, k1 in f(c2, xl, yl, 32):
                    if op == 'add':
                        hp = xh.p + yh.p + k1 - M32 * carry
                        hl, hh = xh.lo + yh.lo + k1 - M32 * carry, xh.hi + yh.hi + k1 - M32 * carry
                    else:
                        hp = xh.p - yh.p - k1 + M32 * carry
                        hl, hh = xh.lo - yh.hi - k1 + M32 * carry, xh.hi - yh.lo - k1 + M32 * carry
                    c4 = c3.copy()
                    c4.cons.append((hp, '>=0'))
                    c4.cons.append((hp - M32, '<0'))
                    if not c4.feasible():
                        continue
                    H = KV(hp, max(hl, 0), min(hh, M32 - 1), w=32)
                    l.w = 32
                    c4.cache[key] = (H, l)
                    res.append((c4, (H, l)))
        return res
    c = c.copy()
    q, r = gsplit(c, v, 32)
    q.w = 32
    r.w = 32
    return [(c, (q, r))]


def decide_gt(c, x, y, depth=2):
    """[(case, bool)]: truth of x > y (unsigned values)"""
    d = x.p - y.p
    xl, xh = c.bound(x.p, x.lo, x.hi)
    yl, yh = c.bound(y.p, y.lo, y.hi)
    lo, hi = c.bound(d, xl - yh, xh - yl)
    if lo > 0:
        return [(c, True)]
    if hi <= 0:
        return [(c, False)]
    for q, op in c.cons:
        for sgn in (1, -1):
            diff = d - sgn * q
            if diff.isconst():
                beta = diff.d.get((), 0)
                if op == '>=0':
                    if sgn == 1 and beta > 0:
                        return [(c, True)]
                    if sgn == -1 and beta <= 0:
                        return [(c, False)]
                if op == '<0':
                    if sgn == 1 and beta - 1 <= 0:
                        return [(c, False)]
                    if sgn == -1 and beta + 1 > 0:
                        return [(c, True)]
    small = [v for v in sorted(d.vars()) if 0 < c.box[v][1] - c.box[v][0] <= 2]
    if small:
        # carry / borrow bits: enumerate their values (cheap, and it pins them for the final identity)
        v = small[0]
        l, h = c.box[v]
        res = []
        for val in range(l, h + 1):
            cc = c.copy()
            cc.box[v] = (val, val)
            if not cc.feasible():
                continue
            res += decide_gt(cc, x, y, depth)
        return res
    if depth > 0:
        for v in sorted(d.vars(), key=lambda v: -(c.box[v][1] - c.box[v][0])):
            l, h = c.box[v]
            if h - l < 1:
                continue
            parts = [(l, l), (l + 1, h)] if h - l == 1 else [(l, l), (l + 1, h - 1), (h, h)]
            res = []
            ok = True
            for pl, ph in parts:
                cc = c.copy()
                cc.box[v] = (pl, ph)
                if not cc.feasible():
                    continue
                try:
                    r = decide_gt(cc, x, y, depth - 1)
                except Undecided:
                    ok = False
                    break
                if len(r) > 1:
                    ok = False
                    break
                res += r
            if ok:
                return res
    out = []
    c1 = c.copy()
    c1.cons.append((d - 1, '>=0'))
    if c1.feasible():
        out.append((c1, True))
    c0 = c.copy()
    c0.cons.append((d - 1, '<0'))
    if c0.feasible():
        out.append((c0, False))
    return out


class St:
    __slots__ = ('case', 'env', 'mem', 'log')

    def __init__(s, case, env, mem, log=None):
        s.case = case
        s.env = env
        s.mem = mem
        s.log = log if log is not None else []

    def fork(s, case=None):
        return St(case if case is not None else s.case.copy(), dict(s.env), dict(s.mem), list(s.log))


class KPtr:
    """pointer to a kernel-mode object: (object id, element offset)"""
    __slots__ = ('obj', 'off')

    def __init__(s, obj, off=0):
        s.obj = obj
        s.off = off

    def __hash__(s):
        return hash((s.obj, s.off))

    def __eq__(s, o):
        return isinstance(o, KPtr) and s.obj == o.obj and s.off == o.off

    def __repr__(s):
        return 'KPtr(%s+%s)' % (s.obj, s.off)


class Half:
    """j-th 32-bit half of a 64-bit lane content (lazy)"""
    __slots__ = ('v', 'j')

    def __init__(s, v, j):
        s.v = v
        s.j = j

    def __repr__(s):
        return 'Half%d(%r)' % (s.j, s.v)


class KInterp:
    def __init__(s, mod, lane=0, summaries=None, globals_=None, budget=4000, all_lanes=False):
        s.mod = mod
        s.lane = lane
        s.all_lanes = all_lanes      # track every element of a vector (routines that combine lanes), not only `lane`
        s.focus = None               # with all_lanes: element-wise operations are followed for this element index only (the others
                                     # become untracked), which keeps case splits from multiplying across independent lanes
        s.summ = summaries or {}
        s.gconst = globals_ or {}
        s.n = 0
        s.cells = 0
        s.budget = budget
        s.asm_info = []
        s.callsites = []
        s.depth = 0

    # ---- operands
    def val(s, st, v, ty):
        t = v[0]
        if t == 'r':
            return st.env[v[1]]
        if t == 'i':
            if ty is not None and ty[0] == 'i':
                return const(v[1] & ((1 << ty[1]) - 1), ty[1]) if ty[1] > 1 else bool(v[1] & 1)
            return const(v[1] % M64)
        if t == 'g':
            return KPtr(v[1], 0)
        if t == 'undef':
            return None
        if t == 'zero':
            zt = v[1]
            if zt[0] == 'v':
                return [const(0, zt[2][1] if zt[2][0] == 'i' else 64) for _ in range(zt[1])]
            return const(0)
        if t == 'agg':
            return [s.val(st, e, ty[2] if ty and ty[0] in ('v', 'a') else None) for e in v[1]]
        if t == 'null':
            return KPtr('null', 0)
        if t == 'cgep':
            base = s.val(st, v[2], None)
            return s.gep(v[1], base, [s.val(st, i, ('i', 64)) for i in v[3]])
        if t == 'ccast':
            return s.val(st, v[3], v[2])
        raise Undecided('operand %r' % (v,))

    def gep(s, bt, base, idx):
        if not isinstance(base, KPtr):
            raise Undecided('gep on %r' % (base,))
        off = base.off
        cur = bt
        for j, iv in enumerate(idx):
            if not (isinstance(iv, KV) and iv.isconst()):
                raise Undecided('symbolic index in a kernel')
            i = iv.cval()
            if i >= (1 << 63):
                i -= M64
            if j == 0:
                off += i * ir.sizeof(s.mod, cur)
            else:
                if cur[0] in ('s', 'lit'):
                    d, cur = ir.field_offset(s.mod, cur, i)
                    off += d
                elif cur[0] in ('a', 'v'):
                    cur = cur[2]
                    off += i * ir.sizeof(s.mod, cur)
                else:
                    raise Undecided('gep into %r' % (cur,))
        return KPtr(base.obj, off)

    # ---- memory: objects hold 8-byte cells (KV) addressed by byte offset
    def load(s, st, p, ty):
        if not isinstance(p, KPtr):
            raise Undecided('load through %r' % (p,))
        if ty[0] == 'v':
            n = ty[1]
            es = ir.sizeof(s.mod, ty[2])
            if es != 8:
                raise Undecided('vector load of %d-byte elements' % es)
            out = [None] * n
            if s.all_lanes:
                for i_ in range(n):
                    out[i_] = s.load_cell(st, KPtr(p.obj, p.off + 8 * i_))
                return out
            out[s.lane] = s.load_cell(st, KPtr(p.obj, p.off + 8 * s.lane))
            return out
        if ty[0] == 'i' and ty[1] == 64:
            return s.load_cell(st, p)
        if ty[0] == 'p':
            return st.mem[p]
        if ty[0] == 'i':
            v = st.mem.get(p)
            if v is None:
                g = s.gconst.get((p.obj, p.off))
                if g is not None:
                    return const(g & ((1 << ty[1]) - 1), ty[1])
                raise Undecided('load of uninitialised %s' % (p,))
            return v
        raise Undecided('load of type %r' % (ty,))

    def load_cell(s, st, p):
        v = st.mem.get(p)
        if v is not None:
            return v
        g = s.gconst.get((p.obj, p.off))
        if g is not None:
            return const(g)
        raise Undecided('read of unknown cell %s' % (p,))

    def store(s, st, p, v, ty):
        if not isinstance(p, KPtr):
            raise Undecided('store through %r' % (p,))
        if ty[0] == 'v':
            if not isinstance(v, list):
                raise Undecided('vector store of %r' % (v,))
            for i, x in enumerate(v):
                if x is not None:
                    st.mem[KPtr(p.obj, p.off + 8 * i)] = x
            # lanes that are not tracked stay unknown
            return
        st.mem[p] = v

    # ---- running
    def run_fn(s, st, name, args):
        h = s.summ.get(name)
        if h is not None:
            return h(s, st, args)
        fn = s.mod.fn(name)
        st2 = st.fork(st.case)
        saved = st2.env
        st2.env = {}
        for (t, pn), a in zip(fn.params, args):
            if pn:
                st2.env[pn] = a
        s.depth += 1
        if s.depth > 40:
            raise Undecided('call depth')
        try:
            outs = s.run_from(st2, fn, fn.order[0], 0, None)
        finally:
            s.depth -= 1
        res = []
        for st3, ret in outs:
            st3.env = dict(saved)
            res.append((st3, ret))
        return res

    def run_from(s, st, fn, lab, i, prev):
        while True:
            blk = fn.blocks[lab]
            n = len(blk)
            jumped = False
            if i == 0 and blk and blk[0].op == 'phi':
                vals = []
                for ins in blk:
                    if ins.op != 'phi':
                        break
                    for v, l in ins.a:
                        if l == prev:
                            vals.append((ins.dst, s.val(st, v, ins.ty)))
                            break
                    else:
                        raise Undecided('phi without matching predecessor')
                for d, v in vals:
                    st.env[d] = v
            while i < n:
                ins = blk[i]
                i += 1
                r = s.step(st, ins, prev, fn)
                if r is None:
                    continue
                kind = r[0]
                if kind == 'ret':
                    return [(st, r[1])]
                if kind == 'br':
                    prev, lab, i = lab, r[1], 0
                    jumped = True
                    break
                if kind == 'alts':
                    dst, alts = r[1], r[2]
                    out = []
                    s.cells += len(alts) - 1
                    if s.cells > s.budget:
                        raise Undecided('partition budget exhausted (%d cells)' % s.cells)
                    for case, v in alts:
                        st2 = st.fork(case)
                        if dst:
                            st2.env[dst] = v
                        out += s.run_from(st2, fn, lab, i, prev)
                    return out
                if kind == 'brs':
                    out = []
                    for case, target in r[1]:
                        st2 = st.fork(case)
                        out += s.run_from(st2, fn, target, 0, lab)
                    return out
                if kind == 'states':
                    out = []
                    for st2 in r[1]:
                        out += s.run_from(st2, fn, lab, i, prev)
                    return out
            if not jumped:
                raise Undecided('block without terminator')

    def setv(s, st, dst, alts):
        if len(alts) == 1:
            st.case = alts[0][0]
            st.env[dst] = alts[0][1]
            return None
        if not alts:
            # every alternative was pruned: legitimate only if the cell itself is empty (an earlier partition produced a
            # cell whose emptiness the interval test did not see); confirmed by polyhedral emptiness, else undecided
            if (not st.case.feasible()) or st.case.fm_infeasible():
                return ('alts', dst, [])
            raise Undecided('no feasible alternative')
        return ('alts', dst, alts)

    # ---- lane helpers
    def lane_elems(s, n):
        """indices of the elements of an n-element vector that belong to the tracked 64-bit lane"""
        per = n // s.W
        return range(s.lane * per, (s.lane + 1) * per)

    def vmap(s, st, dst, vs, f, n=None):
        """apply f(case, *elements) -> [(case, value)] on the tracked elements of vectors vs"""
        n = n or max(len(v) for v in vs if isinstance(v, list))
        vs = [v if isinstance(v, list) else [v] * n for v in vs]
        idx = [i for i in range(n) if all(v[i] is not None for v in vs)]
        if s.focus is not None:
            idx = [i for i in idx if i == s.focus]
        # sequentially over tracked elements, threading the alternatives
        alts = [(st.case, [None] * n)]
        for i in idx:
            nxt = []
            for case, acc in alts:
                for c2, r in f(case, *[v[i] for v in vs]):
                    a2 = list(acc)
                    a2[i] = r
                    nxt.append((c2, a2))
            alts = nxt
        return s.setv(st, dst, alts)

    def step(s, st, ins, prev, fn):
        s.n += 1
        op = ins.op
        c = st.case
        dst = ins.dst
        if op == 'call':
            return s.do_call(st, ins, fn)
        if op == 'load':
            st.env[dst] = s.load(st, s.val(st, ins.a[0], None), ins.ty)
            return
        if op == 'store':
            s.store(st, s.val(st, ins.a[1], None), s.val(st, ins.a[0], ins.ty), ins.ty)
            return
        if op == 'alloca':
            s.n += 1
            st.env[dst] = KPtr('%s#%d' % (dst, s.n), 0)
            return
        if op == 'getelementptr':
            st.env[dst] = s.gep(ins.ty, s.val(st, ins.a[0], None), [s.val(st, i, ('i', 64)) for i in ins.a[1:]])
            return
        if op == 'ret':
            return ('ret', None if not ins.a else s.val(st, ins.a[0], ins.ty))
        if op == 'br':
            if not ins.a:
                return ('br', ins.x[0])
            b = s.val(st, ins.a[0], ('i', 1))
            if isinstance(b, bool):
                return ('br', ins.x[0] if b else ins.x[1])
            raise Undecided('branch on %r' % (b,))
        if op == 'phi':
            return
        if op == 'bitcast':
            v = s.val(st, ins.a[0], ins.x)
            st.env[dst] = s.bitcast(st, v, ins.x, ins.ty)
            return
        if op in ('zext', 'sext', 'trunc'):
            v = s.val(st, ins.a[0], ins.x)
            st.env[dst] = s.ext(st, op, v, ins.x, ins.ty)
            return
        if op == 'icmp':
            a = s.val(st, ins.a[0], ins.ty)
            b = s.val(st, ins.a[1], ins.ty)
            if ins.ty[0] == 'v':
                ew = ins.ty[2][1]
                return s.vmap(st, dst, [a, b], lambda case, x, y: s.cmp(case, ins.x, x, y, ew), ins.ty[1])
            return s.setv(st, dst, s.cmp(c, ins.x, a, b, ins.ty[1] if ins.ty[0] == 'i' else 64))
        if op in ('add', 'sub'):
            a = s.val(st, ins.a[0], ins.ty)
            b = s.val(st, ins.a[1], ins.ty)
            if ins.ty[0] == 'v':
                ew = ins.ty[2][1]
                return s.vmap(st, dst, [a, b], lambda case, x, y: s.addsub(case, op, x, y, ew), ins.ty[1])
            return s.setv(st, dst, s.addsub(c, op, a, b, ins.ty[1]))
        if op == 'mul':
            a = s.val(st, ins.a[0], ins.ty)
            b = s.val(st, ins.a[1], ins.ty)
            if ins.ty[0] == 'v':
                return s.vmap(st, dst, [a, b], lambda case, x, y: [(case, s.mul(case, x, y))], ins.ty[1])
            st.env[dst] = s.mul(c, a, b, ins.ty[1] if ins.ty[0] == 'i' and ins.ty[1] in (32, 128) else 64)
            return
        if op in ('and', 'or', 'xor'):
            a = s.val(st, ins.a[0], ins.ty)
            b = s.val(st, ins.a[1], ins.ty)
            if ins.ty[0] == 'v':
                return s.vmap(st, dst, [a, b], lambda case, x, y: s.bitop(case, op, x, y), ins.ty[1])
            return s.setv(st, dst, s.bitop(c, op, a, b))
        if op in ('lshr', 'shl'):
            a = s.val(st, ins.a[0], ins.ty)
            b = s.val(st, ins.a[1], ins.ty)
            if ins.ty[0] == 'v':
                return s.vmap(st, dst, [a, b], lambda case, x, y: [(case, s.shift(case, op, x, y))], ins.ty[1])
            cc = c.copy()
            st.case = cc
            st.env[dst] = s.shift(cc, op, a, b)
            return
        if op == 'select':
            cnd = s.val(st, ins.a[0], ins.x)
            a = s.val(st, ins.a[1], ins.ty)
            b = s.val(st, ins.a[2], ins.ty)
            if isinstance(cnd, list):
                n = len(cnd)
                a = a if isinstance(a, list) else [a] * n
                b = b if isinstance(b, list) else [b] * n
                out = [None] * n
                for i in range(n):
                    if cnd[i] is None:
                        continue
                    if not isinstance(cnd[i], bool):
                        raise Undecided('select on %r' % (cnd[i],))
                    out[i] = a[i] if cnd[i] else b[i]
                st.env[dst] = out
                return
            if isinstance(cnd, bool):
                st.env[dst] = a if cnd else b
                return
            raise Undecided('select on %r' % (cnd,))
        if op == 'shufflevector':
            a = s.val(st, ins.a[0], ins.ty)
            b = s.val(st, ins.a[1], ins.ty)
            n = ins.ty[1]
            a = a if isinstance(a, list) else [None] * n
            b = b if isinstance(b, list) else [None] * n
            ab = list(a) + list(b)
            out = [None if i is None else ab[i] for i in ins.x]
            st.env[dst] = out
            return
        if op == 'insertelement':
            v = s.val(st, ins.a[0], ins.ty)
            v = [None] * ins.ty[1] if v is None else list(v)
            i = s.val(st, ins.a[2], ('i', 64)).cval()
            v[i] = s.val(st, ins.a[1], ins.ty[2])
            st.env[dst] = v
            return
        if op == 'extractelement':
            v = s.val(st, ins.a[0], ins.ty)
            i = s.val(st, ins.a[1], ('i', 64)).cval()
            st.env[dst] = v[i]
            return
        if op == 'extractvalue':
            v = s.val(st, ins.a[0], ins.ty)
            for i in ins.x:
                if not isinstance(v, list):
                    raise Undecided('extractvalue of %r' % (v,))
                v = v[i]
            st.env[dst] = v
            return
        if op == 'insertvalue':
            raise Undecided('aggregate construction in a kernel')
        if op == 'unreachable':
            raise Undecided('unreachable reached')
        raise Undecided('instruction %s' % ins.text.strip()[:100])

    # ---- element operations
    def tokv(s, c, v, w=64):
        if isinstance(v, KV):
            return v
        if isinstance(v, Mask):
            return const((1 << v.w) - 1 if v.b else 0, v.w)
        if isinstance(v, bool):
            return const(int(v), 1)
        raise Undecided('value %r used as an integer' % (v,))

    def halfkv(s, c, h):
        """KV (w=32) of a 32-bit element; c is mutated (split cache)"""
        if isinstance(h, KV):
            return h
        if isinstance(h, Mask):
            if h.b is None:
                raise Undecided('use of an undetermined mask half')
            return const(M32 - 1 if h.b else 0, 32)
        if isinstance(h, Half):
            v = h.v
            if not isinstance(v, KV):
                v = s.tokv(c, v)
            if v.sh and h.j == 1:
                raise Undecided('high half of a shifted value used as an integer')
            q, r = gsplit(c, KV(v.p, v.lo, v.hi), 32)
            x = r if h.j == 0 else q
            return KV(x.p, x.lo, x.hi, w=32)
        raise Undecided('half %r' % (h,))

    def bitcast(s, st, v, stt, dt):
        if stt[0] != 'v' and dt[0] != 'v':
            return v
        if stt[0] == 'v' and dt[0] == 'v':
            ns, nd = stt[1], dt[1]
            if ns == nd:
                return v
            if v is None:
                return None
            if nd == 2 * ns:
                out = [None] * nd
                for i, x in enumerate(v):
                    if x is not None:
                        if isinstance(x, tuple) and x[0] == 'pair':
                            out[2 * i] = x[2]
                            out[2 * i + 1] = x[1]
                        elif isinstance(x, Mask) and x.w == 64:
                            out[2 * i] = Mask(x.b, 32)
                            out[2 * i + 1] = Mask(x.b, 32)
                        else:
                            out[2 * i] = Half(x, 0)
                            out[2 * i + 1] = Half(x, 1)
                return out
            if ns == 2 * nd:
                out = [None] * nd
                for i in range(nd):
                    lo, hi = v[2 * i], v[2 * i + 1]
                    if lo is None and hi is None:
                        continue
                    if lo is None or hi is None:
                        raise Undecided('lane assembled from a tracked and an untracked half')
                    if isinstance(lo, Half) and isinstance(hi, Half) and lo.v is hi.v and lo.j == 0 and hi.j == 1:
                        out[i] = lo.v
                    else:
                        out[i] = ('pair', hi, lo)
                return out
            if nd % ns == 0 and all(x is None or (isinstance(x, Mask) and x.b is not None) for x in v):
                # lanes that are all-ones / zero masks split into narrower all-ones / zero masks (movemask over bytes)
                k_ = nd // ns
                out = []
                for x in v:
                    out += [None if x is None else Mask(x.b, x.w // k_)] * k_
                return out
            raise Undecided('vector bitcast %s -> %s' % (ir.tystr(stt), ir.tystr(dt)))
        if stt[0] == 'v' and dt[0] == 'i':
            return ('bits', v)
        if stt[0] == 'i' and dt[0] == 'v':
            if isinstance(v, tuple) and v[0] == 'bits':
                return v[1]
            if isinstance(v, KV) and v.isconst():
                return [bool((v.cval() >> i) & 1) for i in range(dt[1])]
            raise Undecided('bitcast of %r to a mask vector' % (v,))
        return v

    def resolve(s, c, v):
        """a 64-bit element that may be a ('pair', hi, lo) of 32-bit halves -> KV; c is mutated"""
        if isinstance(v, tuple) and v[0] == 'pair':
            h = s.halfkv(c, v[1])
            l = s.halfkv(c, v[2])
            return KV(h.p * M32 + l.p, h.lo * M32 + l.lo, h.hi * M32 + l.hi)
        return v

    def ext(s, st, op, v, stt, dt):
        def one(x, ws, wd):
            if x is None:
                return None
            if isinstance(x, UnkBool):
                return Mask(None, wd)
            if isinstance(x, bool):
                if op == 'sext':
                    return Mask(x, wd)
                return const(int(x), wd)
            if isinstance(x, Mask) and op == 'sext':
                return Mask(x.b, wd)
            if isinstance(x, KV):
                if op == 'zext':
                    return KV(x.p, x.lo, x.hi, x.sh, x.prov, wd)
                if op == 'trunc':
                    if x.hi < (1 << wd):
                        return KV(x.p, x.lo, x.hi, 0, None, wd)
                    cc = st.case.copy()
                    st.case = cc
                    q, r = gsplit(cc, KV(x.p, x.lo, x.hi), wd)
                    return KV(r.p, r.lo, r.hi, 0, None, wd)
                if op == 'sext' and x.hi < (1 << (ws - 1)):
                    return KV(x.p, x.lo, x.hi, 0, None, wd)
                if op == 'sext' and x.lo >= (1 << (ws - 1)):
                    d = (1 << wd) - (1 << ws)
                    return KV(x.p + d, x.lo + d, x.hi + d, 0, None, wd)
            raise Undecided('%s of %r' % (op, x))
        if isinstance(v, list):
            return [one(x, stt[2][1], dt[2][1]) for x in v]
        return one(v, stt[1], dt[1])

    def cmp(s, c, pred, a, b, w):
        """[(case, bool)]"""
        if w == 32 and (isinstance(a, (Half, Mask)) or isinstance(b, (Half, Mask))):
            # 32-bit element compare: elements are halves of 64-bit lane contents.  The limbs of sums/differences are
            # derived from the operand limbs (limb-carry partition), which is what makes "high half of a+b vs high half
            # of a" decidable.
            def content_alts(c0, h):
                if isinstance(h, Half) and isinstance(h.v, KV):
                    v = h.v
                    out = []
                    for c1, (H, L) in limbs(c0, KV(v.p, v.lo, v.hi, 0, v.prov)):
                        x = H if h.j == 1 else L
                        out.append((c1, KV(x.p, x.lo, x.hi, w=32), bool(v.sh and h.j == 1)))
                    return out
                cc = c0.copy()
                return [(cc, s.halfkv(cc, h), False)]
            res = []
            for c1, x, fx in content_alts(c, a):
                for c2, y, fy in content_alts(c1, b):
                    if pred in ('sgt', 'slt', 'sge', 'sle'):
                        if fx and fy:
                            res += s.cmp_u(c2, 'u' + pred[1:], x, y)   # both msb-flipped: signed order = unsigned order of values
                        elif not fx and not fy and x.hi < (1 << 31) and y.hi < (1 << 31):
                            res += s.cmp_u(c2, 'u' + pred[1:], x, y)
                        elif not fx and not fy and isinstance(a, Half) and isinstance(b, Half) and a.j == 1 and b.j == 1:
                            # high halves of two unshifted values that may have their top bit set: the signed order of the bit
                            # patterns is the unsigned order after adding 2^31 mod 2^32 to both (partition on each top bit)
                            for c3, fa in s._flip(c2, x, 1 << 31, 32):
                                for c4, fb in s._flip(c3, y, 1 << 31, 32):
                                    res += s.cmp_u(c4, 'u' + pred[1:], fa, fb)
                        elif fx != fy and isinstance(a, Half) and isinstance(b, Half) and a.j == 1 and b.j == 1:
                            # high halves, one operand carried as shifted and the other not: the signed order of the two bit
                            # patterns is the unsigned order of (value of the shifted one) and (value + 2^31 mod 2^32 of the other)
                            xs = [(c2, KV(x.p, x.lo, x.hi, 0, None, 32))] if fx else s._flip(c2, x, 1 << 31, 32)
                            for c3, fa in xs:
                                ys = [(c3, KV(y.p, y.lo, y.hi, 0, None, 32))] if fy else s._flip(c3, y, 1 << 31, 32)
                                for c4, fb in ys:
                                    res += s.cmp_u(c4, 'u' + pred[1:], fa, fb)
                        else:
                            # low halves in a 64-bit-lane compare emulation: don't-care, left undetermined
                            res.append((c2, UNK))
                    else:
                        if fx != fy:
                            if pred in ('eq', 'ne') and isinstance(a, Half) and isinstance(b, Half) and a.j == 1 and b.j == 1:
                                # equality of the two bit patterns: the shifted one's pattern is value + 2^31 (mod 2^32)
                                xs = [(c2, KV(x.p, x.lo, x.hi, 0, None, 32))] if not fx else s._flip(c2, x, 1 << 31, 32)
                                for c3, fa in xs:
                                    ys = [(c3, KV(y.p, y.lo, y.hi, 0, None, 32))] if not fy else s._flip(c3, y, 1 << 31, 32)
                                    for c4, fb in ys:
                                        res += s.cmp_u(c4, pred, fa, fb)
                                continue
                            raise Undecided('unsigned 32-bit compare of a shifted and an unshifted half')
                        res += s.cmp_u(c2, pred, x, y)
            return res
        a = s.resolve(c, a)
        b = s.resolve(c, b)
        if isinstance(a, Mask) or isinstance(b, Mask):
            a = s.tokv(c, a)
            b = s.tokv(c, b)
        if not (isinstance(a, KV) and isinstance(b, KV)):
            raise Undecided('icmp %r %r' % (a, b))
        if pred in ('sgt', 'slt', 'sge', 'sle'):
            if a.sh != b.sh:
                if a.isconst():
                    a = KV(C(a.cval() ^ MSB), a.cval() ^ MSB, a.cval() ^ MSB, b.sh)
                elif b.isconst():
                    b = KV(C(b.cval() ^ MSB), b.cval() ^ MSB, b.cval() ^ MSB, a.sh)
                else:
                    # signed order of the two bit patterns: a shifted operand's pattern orders like its unshifted value,
                    # an unshifted operand's pattern orders like value + 2^(w-1) mod 2^w (partition on its top bit)
                    half = 1 << (w - 1)
                    out = []
                    xs = [(c, KV(a.p, a.lo, a.hi, 0, None, w))] if a.sh else s._flip(c, a, half, w)
                    for c1, fa in xs:
                        ys = [(c1, KV(b.p, b.lo, b.hi, 0, None, w))] if b.sh else s._flip(c1, b, half, w)
                        for c2, fb in ys:
                            out += s.cmp_u(c2, 'u' + pred[1:], fa, fb)
                    return out
            if a.sh == 1:
                pred = 'u' + pred[1:]
            elif a.hi < (1 << (w - 1)) and b.hi < (1 << (w - 1)):
                pred = 'u' + pred[1:]
            else:
                # signed order of two's-complement values = unsigned order after adding 2^(w-1) mod 2^w: partition on the sign
                half = 1 << (w - 1)
                out = []
                for c1, fa in s._flip(c, a, half, w):
                    for c2, fb in s._flip(c1, b, half, w):
                        out += s.cmp_u(c2, 'u' + pred[1:], fa, fb)
                return out
        else:
            if a.sh != b.sh:
                raise Undecided('unsigned compare of a shifted and an unshifted value')
            if a.sh == 1 and pred not in ('eq', 'ne'):
                raise Undecided('unsigned ordering compare on shifted values')
        return s.cmp_u(c, pred, a, b)

    def _flip(s, c, v, half, w):
        """[(case, KV of (v + 2^(w-1)) mod 2^w)]"""
        out = []
        for cc, big in decide_gt(c, v, const(half - 1, w)):
            if big:
                out.append((cc, KV(v.p - half, max(0, v.lo - half), v.hi - half, 0, None, w)))
            else:
                out.append((cc, KV(v.p + half, v.lo + half, min(v.hi, half - 1) + half, 0, None, w)))
        return out

    def cmp_u(s, c, pred, x, y):
        if pred == 'ugt':
            return decide_gt(c, x, y)
        if pred == 'ult':
            return decide_gt(c, y, x)
        if pred == 'uge':
            return [(cc, not r) for cc, r in decide_gt(c, y, x)]
        if pred == 'ule':
            return [(cc, not r) for cc, r in decide_gt(c, x, y)]
        if pred in ('eq', 'ne'):
            out = []
            for cc, r in decide_gt(c, x, y):
                if r:
                    out.append((cc, pred == 'ne'))
                else:
                    for c3, r2 in decide_gt(cc, y, x):
                        out.append((c3, r2 if pred == 'ne' else (not r2)))
            return out
        raise Undecided('predicate ' + pred)

    def addsub(s, c, op, a, b, w):
        cc = c
        if w == 32:
            cc = c.copy()
            a = s.halfkv(cc, a)
            b = s.halfkv(cc, b)
        else:
            if (isinstance(a, tuple) and a[0] == 'pair') or (isinstance(b, tuple) and b[0] == 'pair'):
                cc = c.copy()
                a = s.resolve(cc, a)
                b = s.resolve(cc, b)
            a = s.tokv(cc, a)
            b = s.tokv(cc, b)
        f = wrap_add if op == 'add' else wrap_sub
        out = []
        for c2, v, cy in f(cc, a, b, w):
            v.sh = a.sh ^ b.sh
            v.prov = (op, KV(a.p, a.lo, a.hi), KV(b.p, b.lo, b.hi), cy)
            out.append((c2, v))
        return out

    def mul(s, c, a, b, w=64):
        a = s.tokv(c, a)
        b = s.tokv(c, b)
        if a.sh or b.sh:
            raise Undecided('multiplication of a shifted value')
        if a.hi * b.hi >= (1 << w):
            raise Undecided('%d-bit multiplication that may wrap (operands up to %d, %d)' % (w, a.hi, b.hi))
        if w != 64:         # e.g. unsigned __int128 product of two zero-extended 64-bit values
            return mk(c, a.p * b.p, a.lo * b.lo, a.hi * b.hi, w=w)
        return mk(c, a.p * b.p, a.lo * b.lo, a.hi * b.hi)

    def bitop(s, c, op, a, b):
        if op == 'and':
            for x, y in ((a, b), (b, a)):
                if isinstance(x, tuple) and x[0] == 'pair' and isinstance(y, KV) and y.isconst() and y.cval() == M32 - 1:
                    cc = c.copy()
                    h = s.halfkv(cc, x[2])
                    return [(cc, KV(h.p, h.lo, h.hi))]
        if isinstance(a, tuple) or isinstance(b, tuple):
            c = c.copy()
        a = s.resolve(c, a) if isinstance(a, tuple) else a
        b = s.resolve(c, b) if isinstance(b, tuple) else b
        if op == 'xor':
            for x, y in ((a, b), (b, a)):
                if isinstance(y, KV) and y.isconst():
                    if y.cval() == MSB and isinstance(x, KV) and x.w == 64:
                        return [(c, KV(x.p, x.lo, x.hi, x.sh ^ 1, x.prov, 64))]
                    if y.cval() == (1 << y.w) - 1 and isinstance(x, Mask):
                        return [(c, Mask(not x.b, x.w))]
                    if y.cval() == 0:
                        return [(c, x)]
                if isinstance(y, bool) and isinstance(x, bool):
                    return [(c, x != y)]
        if op == 'and':
            for x, y in ((a, b), (b, a)):
                if isinstance(x, Mask):
                    if x.b is None:
                        raise Undecided('and with an undetermined mask')
                    if isinstance(y, Mask):
                        return [(c, Mask(x.b and y.b, x.w))]
                    return [(c, y if x.b else const(0, x.w))]
                if isinstance(y, KV) and y.isconst():
                    m = y.cval()
                    if m == (1 << y.w) - 1 and not isinstance(x, Half):
                        return [(c, x)]
                    if m == 0:
                        return [(c, const(0, y.w))]
                    if (m + 1) & m == 0:
                        k = m.bit_length()
                        cc = c.copy()
                        xv = s.halfkv(cc, x) if isinstance(x, Half) else s.tokv(cc, x)
                        if xv.sh:
                            raise Undecided('low-bit mask of a shifted value')
                        q, r = gsplit(cc, KV(xv.p, xv.lo, xv.hi), k)
                        return [(cc, KV(r.p, r.lo, r.hi, 0, None, xv.w))]
                if isinstance(x, bool) and isinstance(y, bool):
                    return [(c, x and y)]
        if op == 'or':
            for x, y in ((a, b), (b, a)):
                if isinstance(y, KV) and y.isconst() and y.cval() == 0:
                    return [(c, x)]
                if isinstance(x, bool) and isinstance(y, bool):
                    return [(c, x or y)]
                if isinstance(x, Mask) and isinstance(y, Mask):
                    return [(c, Mask(x.b or y.b, x.w))]
            if isinstance(a, KV) and isinstance(b, KV) and not a.sh and not b.sh and a.w == b.w and a.lo >= 0 and b.lo >= 0:
                # bitwise or of two non-negative values: a fresh symbol o with max(a, b) <= o <= a + b (and o < 2^w).  Exact enough
                # for guards of the form (x | y | ...) < 2^k, which hold iff every member is below 2^k; the defining equation is
                # kept for the witness search (concrete evaluation)
                cc = c.copy()
                o = cc.fresh('o', max(a.lo, b.lo), min((1 << a.w) - 1, a.hi + b.hi))
                cc.defs.append(('or', o, a.p, b.p))
                op_ = Poly.var(o)
                cc.cons.append((op_ - a.p, '>=0'))
                cc.cons.append((op_ - b.p, '>=0'))
                cc.cons.append((a.p + b.p - op_, '>=0'))
                return [(cc, KV(op_, max(a.lo, b.lo), min((1 << a.w) - 1, a.hi + b.hi), 0, None, a.w))]
        raise Undecided('bit operation %s on %r, %r' % (op, a, b))

    def shift(s, c, op, v, k):
        if not (isinstance(k, KV) and k.isconst()):
            raise Undecided('variable shift')
        k = k.cval()
        if isinstance(v, tuple) and v[0] == 'pair':
            if op == 'lshr' and k == 32:
                h = s.halfkv(c, v[1])
                return KV(h.p, h.lo, h.hi)
            v = s.resolve(c, v)
        if isinstance(v, Mask):
            if op == 'lshr':
                if v.b is None:
                    raise Undecided('shift of an undetermined mask')
                return const(((1 << v.w) - 1) >> k if v.b else 0, v.w)
            v = s.tokv(c, v)
        if not isinstance(v, KV):
            raise Undecided('shift of %r' % (v,))
        if v.sh:
            raise Undecided('shift of a shifted value')
        w = v.w
        if op == 'lshr':
            q, r = gsplit(c, KV(v.p, v.lo, v.hi), k)
            return KV(q.p, q.lo, q.hi, 0, None, w)
        q, r = gsplit(c, KV(v.p, v.lo, v.hi), w - k)
        return KV(r.p * (1 << k), r.lo << k, r.hi << k, 0, None, w)

    # ---- calls
    def do_call(s, st, ins, fn):
        cal = ins.a[0]
        if cal[0] == 'asm':
            if getattr(s, 'asm_dialect', 'x86') == 'ptx':
                from . import ptx
                return ptx.do_asm(s, st, ins)
            from . import x86
            return x86.do_asm(s, st, ins)
        if cal[0] != 'g':
            raise Undecided('indirect call in a kernel')
        name = cal[1][1:]
        if name.startswith('llvm.dbg.') or name.startswith('llvm.lifetime.'):
            return
        atys = ins.x['atys']
        args = [None if a[0] == 'md' else s.val(st, a, t) for a, t in zip(ins.a[1:], atys)]
        m = re.match(r'llvm\.x86\.avx(2|512)\.ps(r|l)li\.q', name)
        if m:
            v, k = args
            opn = 'lshr' if m.group(2) == 'r' else 'shl'
            k64 = const(k.cval(), 64)
            return s.vmap(st, ins.dst, [v], lambda case, x: s._shift1(case, opn, x, k64), len(v))
        m = re.match(r'llvm\.u(min|max)\.(v\d+)?i64$', name)
        if m:
            # unsigned minimum / maximum per 64-bit element: partition on the comparison
            def pick(case, x, y, kind=m.group(1)):
                x = s.tokv(case, s.resolve(case, x))
                y = s.tokv(case, s.resolve(case, y))
                if x.sh != y.sh:
                    raise Undecided('unsigned min/max of a shifted and an unshifted value')
                if x.sh:
                    raise Undecided('unsigned min/max on shifted values')
                out = []
                for c2, gt in decide_gt(case, x, y):
                    big, small = (x, y) if gt else (y, x)
                    out.append((c2, small if kind == 'min' else big))
                return out
            a0, a1 = args[0], args[1]
            if isinstance(a0, list) or isinstance(a1, list):
                return s.vmap(st, ins.dst, [a0, a1], pick, len(a0) if isinstance(a0, list) else len(a1))
            return s.setv(st, ins.dst, pick(st.case, a0, a1))
        if name in ('llvm.x86.avx2.pmovmskb', 'llvm.x86.sse2.pmovmskb.128'):
            # one bit per byte: its top bit; defined here for bytes that are all-ones / zero masks
            bits = 0
            for i, x in enumerate(args[0]):
                if isinstance(x, Mask) and x.b is not None:
                    bits |= (1 << i) if x.b else 0
                else:
                    raise Undecided('movemask over bytes that are not decided masks')
            st.env[ins.dst] = const(bits, 32)
            return
        m = re.match(r'llvm\.x86\.avx(2|512)\.ps(r|l)lv\.q(\.256|\.512)?$', name)
        if m:
            # per-element shift by a per-element count (constant counts only)
            v, k = args
            opn = 'lshr' if m.group(2) == 'r' else 'shl'

            def sh1(case, x, kk):
                kk = s.tokv(case, s.resolve(case, kk))
                if not kk.isconst():
                    raise Undecided('vector shift by a symbolic count')
                if kk.cval() >= 64:
                    return [(case, const(0, 64))]
                return s._shift1(case, opn, x, const(kk.cval(), 64))
            return s.vmap(st, ins.dst, [v, k], sh1, len(v))
        if name == 'llvm.x86.avx512.vpermi2var.q.512':
            a_, idx_, b_ = args
            out = []
            for i in range(8):
                kk = idx_[i] if isinstance(idx_, list) else idx_
                if kk is None:
                    out.append(None)
                    continue
                kk = s.tokv(st.case, s.resolve(st.case, kk))
                if not kk.isconst():
                    raise Undecided('permute with a symbolic index')
                k_ = kk.cval() & 15
                out.append(a_[k_] if k_ < 8 else b_[k_ - 8])
            st.env[ins.dst] = out
            return
        m = re.match(r'llvm\.x86\.avx512\.permvar\.di\.(256|512)$', name)
        if m:
            a_, idx_ = args
            out = []
            for i in range(len(a_)):
                kk = idx_[i]
                if kk is None:
                    out.append(None)
                    continue
                kk = s.tokv(st.case, s.resolve(st.case, kk))
                if not kk.isconst():
                    raise Undecided('permute with a symbolic index')
                out.append(a_[kk.cval() % len(a_)])
            st.env[ins.dst] = out
            return
        m = re.match(r'llvm\.s(min|max)\.(v\d+)?i64$', name)
        if m:
            # signed minimum / maximum per 64-bit element: partition on the signed comparison of the bit patterns
            def spick(case, x, y, kind=m.group(1)):
                x = s.tokv(case, s.resolve(case, x))
                y = s.tokv(case, s.resolve(case, y))
                out = []
                for c2, gt in s.cmp(case, 'sgt', x, y, 64):
                    if gt is UNK or gt is None:
                        raise Undecided('signed min/max: comparison not decided')
                    big, small = (x, y) if gt else (y, x)
                    out.append((c2, small if kind == 'min' else big))
                return out
            a0, a1 = args[0], args[1]
            if isinstance(a0, list) or isinstance(a1, list):
                return s.vmap(st, ins.dst, [a0, a1], spick, len(a0) if isinstance(a0, list) else len(a1))
            return s.setv(st, ins.dst, spick(st.case, a0, a1))
        m = re.match(r'llvm\.u(add|sub)\.with\.overflow\.i(32|64)$', name)
        if m:
            # {result mod 2^w, carry / borrow}: partitioned on the flag, like the hardware adc/sbb idioms
            w = int(m.group(2))
            x = s.tokv(c_ := st.case, s.resolve(st.case, args[0]))
            y = s.tokv(c_, s.resolve(c_, args[1]))
            f = wrap_add if m.group(1) == 'add' else wrap_sub
            alts = [(c2, [r, bool(k)]) for c2, r, k in f(c_, x, y, w)]
            return s.setv(st, ins.dst, alts)
        if name.startswith('llvm.memcpy.'):
            dstp, srcp, n = args[0], args[1], args[2]
            if not (isinstance(dstp, KPtr) and isinstance(srcp, KPtr) and isinstance(n, KV) and n.isconst()):
                raise Undecided('memcpy with a symbolic operand in a kernel')
            nb = n.cval()
            # whole tracked cells only: every cell of the source range is copied, cells of the destination range are replaced
            cells = {}
            for k, v in st.mem.items():
                if isinstance(k, KPtr) and k.obj == srcp.obj and srcp.off <= k.off < srcp.off + nb:
                    cells[k.off - srcp.off] = v
            for off in range(0, nb, 4):
                g = s.gconst.get((srcp.obj, srcp.off + off))
                if off not in cells and g is not None:
                    cells[off] = const(g)
            if not cells:
                raise Undecided('memcpy from a range with no tracked cell')
            for k in [k for k in st.mem if isinstance(k, KPtr) and k.obj == dstp.obj and dstp.off <= k.off < dstp.off + nb]:
                del st.mem[k]
            for off, v in cells.items():
                st.mem[KPtr(dstp.obj, dstp.off + off)] = v
            return
        if name in s.mod.funcs or name in s.summ:
            s.callsites.append((fn.name, name, ins.dbg))
            outs = s.run_fn(st, name, args)
            sts = []
            for st2, ret in outs:
                if ins.dst:
                    st2.env[ins.dst] = ret
                sts.append(st2)
            if len(sts) == 1:
                st.case, st.env, st.mem, st.log = sts[0].case, sts[0].env, sts[0].mem, sts[0].log
                return None
            s.cells += len(sts) - 1
            if s.cells > s.budget:
                raise Undecided('partition budget exhausted (%d cells)' % s.cells)
            return ('states', sts)
        raise Undecided('call of %s in a kernel' % s.mod.dem.get(name, name))

    def _shift1(s, case, opn, x, k):
        cc = case.copy()
        return [(cc, s.shift(cc, opn, x, k))]


def sym64(c, n, box, sh=0):
    """a fresh 64-bit input value n = 2^32*nh + nl with per-limb boxes"""
    c.box[n + 'h'] = box[0]
    c.box[n + 'l'] = box[1]
    H = KV(Poly.var(n + 'h'), box[0][0], box[0][1], w=32)
    L = KV(Poly.var(n + 'l'), box[1][0], box[1][1], w=32)
    v = KV(M32 * H.p + L.p, M32 * H.lo + L.lo, M32 * H.hi + L.hi, sh)
    c.cache[(v.p.key(), 32)] = (H, L)
    return v


B32 = (0, M32 - 1)
BOXES = {
    'nonneg63': [((0, (1 << 31) - 1), B32)],
    'neg63': [((1 << 31, M32 - 1), B32)],
    'nonneg31': [((0, 0), (0, (1 << 31) - 1))],
    'neg31': [((0, 0), (1 << 31, M32 - 1))],
    'u64': [(B32, B32)],
    'small': [((0, M32 - 2), B32), ((M32 - 1, M32 - 1), (0, 0))],
    'canon': [((0, M32 - 2), B32), ((M32 - 1, M32 - 1), (0, 0))],     # [0,p) = [0, 0xFFFFFFFF00000000]
    'bits32': [((0, 0), B32)],
    'bits8': [((0, 0), (0, 255))],
    'zero': [((0, 0), (0, 0))],
}
TS_HI = {'u64': M64 - 1, 'small': P - 1, 'canon': P - 1, 'bits32': M32 - 1, 'bits8': 255, 'zero': 0}


def final_poly(case, p, exact=False):
    """apply the recorded definitions (latest first), then pin symbols whose box is a point"""
    z = p
    for sy, df, ex in reversed(case.subst):
        if sy in z.vars():
            z = z.subst({sy: df})
    pin = {sy: Poly.const(l) for sy, (l, h) in case.box.items() if l == h and sy in z.vars()}
    if pin:
        z = z.subst(pin)
    return z if exact else z.modp()


def _lin_propagate(box, cons):
    """interval propagation with integer rounding over constraints (poly, op) whose non-constant monomials are single
    symbols after pinned symbols are substituted; products of one unpinned symbol with pinned ones are linear too.
    Mutates box; returns False on an empty box."""
    for _ in range(6):
        changed = False
        for q, op in cons:
            terms = {}
            k0 = 0
            ok = True
            for m, co in q.d.items():
                free = None
                val = co
                for x, e in m:
                    l, h = box[x]
                    if l == h:
                        val *= l ** e
                    elif free is None and e == 1:
                        free = x
                    else:
                        ok = False
                        break
                if not ok:
                    break
                if free is None:
                    k0 += val
                else:
                    terms[free] = terms.get(free, 0) + val
            if not ok:
                continue
            terms = {x: c_ for x, c_ in terms.items() if c_}
            if not terms:
                if (op == '>=0' and k0 < 0) or (op == '<0' and k0 >= 0):
                    return False
                continue
            for x, cx in terms.items():
                rl = rh = 0
                for y, cy in terms.items():
                    if y == x:
                        continue
                    l, h = box[y]
                    if cy > 0:
                        rl += cy * l
                        rh += cy * h
                    else:
                        rl += cy * h
                        rh += cy * l
                l, h = box[x]
                if op == '>=0':
                    bnd = -k0 - rh              # cx*x >= bnd
                    if cx > 0:
                        nl = -((-bnd) // cx)
                        if nl > l:
                            l = nl
                            changed = True
                    else:
                        nh = (-bnd) // (-cx)
                        if nh < h:
                            h = nh
                            changed = True
                else:
                    bnd = -1 - k0 - rl          # cx*x <= bnd
                    if cx > 0:
                        nh = bnd // cx
                        if nh < h:
                            h = nh
                            changed = True
                    else:
                        nl = -(bnd // (-cx))
                        if nl > l:
                            l = nl
                            changed = True
                if l > h:
                    return False
                box[x] = (l, h)
        if not changed:
            break
    return True


def guided_witness(case, extra, check, seed=0, budget=3000):
    """constructive search for a concrete point of `case` plus the extra constraints: propagate, branch on the symbol
    with the smallest range (quotients and small coefficients first, which makes the remaining products linear), and
    verify every leaf by exact evaluation from the input symbols (`check(assignment)`).  Only ever used to *produce*
    a witness; nothing is concluded from its failure."""
    import random
    rnd = random.Random(seed)
    cons = list(case.cons) + list(extra)
    derived = set()
    for d in case.defs:
        if d[0] in ('shr', 'or'):
            derived.add(d[1])
        elif d[0] == 'limbs':
            derived.update(d[2])
            # the defining equation value = sum limb_i * 2^shift_i, as two inequalities the propagation can use
            eq = d[1]
            for sy, (shift, width) in zip(d[2], d[3]):
                eq = eq - Poly.var(sy) * (1 << shift)
            cons.append((eq, '>=0'))
            cons.append((eq - 1, '<0'))
    free = sorted(x for x in case.box if x not in derived)
    nodes = [0]

    def complete(a):
        for d in case.defs:
            if d[0] == 'shr':
                a[d[1]] = d[2].ev(a) >> d[3]
            elif d[0] == 'or':
                a[d[1]] = d[2].ev(a) | d[3].ev(a)
            elif d[0] == 'limbs':
                v = d[1].ev(a)
                for sy, (shift, width) in zip(d[2], d[3]):
                    a[sy] = (v >> shift) & ((1 << width) - 1)
        return a

    def rec(box):
        nodes[0] += 1
        if nodes[0] > budget:
            return None
        if not _lin_propagate(box, cons):
            return None
        open_ = [x for x, (l, h) in box.items() if l < h]
        if not open_:
            a = {x: box[x][0] for x in free}
            try:
                a = complete(a)
            except KeyError:
                return None
            if any(not (case.box[x][0] <= a[x] <= case.box[x][1]) for x in case.box if x in a):
                return None
            for p_, op in case.cons:
                v = p_.ev(a)
                if (op == '>=0' and v < 0) or (op == '<0' and v >= 0):
                    return None
            return {x: a[x] for x in free} if check(a) else None
        x = min(open_, key=lambda y: (box[y][1] - box[y][0], y))
        l, h = box[x]
        cands = [l, h, l + 1, h - 1, (l + h) // 2]
        cands += [rnd.randint(l, h) for _ in range(3)]
        seen = set()
        for v in cands:
            if v in seen or not (l <= v <= h):
                continue
            seen.add(v)
            b2 = dict(box)
            b2[x] = (v, v)
            r = rec(b2)
            if r is not None:
                return r
            if nodes[0] > budget:
                return None
        return None
    return rec(dict(case.box))


def witness_search(case, diff, seed=0, tries=600, exact=False, pred=None):
    """a concrete assignment of the cell's input symbols (derived symbols recomputed from their definitions) that
    satisfies all of the cell's constraints and on which diff != 0 (mod p); None if none was found"""
    import random
    rnd = random.Random(seed)
    derived = set()
    for d in case.defs:
        if d[0] in ('shr', 'or'):
            derived.add(d[1])
        elif d[0] == 'limbs':
            derived.update(d[2])
    free = sorted(x for x in case.box if x not in derived)

    def complete(a):
        for d in case.defs:
            if d[0] == 'shr':
                a[d[1]] = d[2].ev(a) >> d[3]
            elif d[0] == 'or':
                a[d[1]] = d[2].ev(a) | d[3].ev(a)
            elif d[0] == 'limbs':
                v = d[1].ev(a)
                for sy, (shift, width) in zip(d[2], d[3]):
                    a[sy] = (v >> shift) & ((1 << width) - 1)
        return a
    cands = [{x: case.box[x][0] for x in free}, {x: case.box[x][1] for x in free}]
    for _ in range(tries):
        a = {}
        for x in free:
            l, h = case.box[x]
            r = rnd.random()
            if r < 0.3:
                a[x] = l
            elif r < 0.6:
                a[x] = h
            elif r < 0.8:
                a[x] = rnd.randint(l, h)
            else:
                a[x] = min(h, max(l, rnd.choice((l + 1, h - 1, (l + h) // 2, h - rnd.randint(0, 3), l + rnd.randint(0, 3)))))
        cands.append(a)
    # sparse structured operands: every other symbol at its lower bound, one or two symbols a power of two (or one less):
    # failing sets of carry-handling code are often thin but contain such points (2^48 * 2^48, 2^63 * 2^63, ...)
    if 1 <= len(free) <= 10:
        base = {x: case.box[x][0] for x in free}
        pool = {}
        for x in free:
            l, h = case.box[x]
            vs = []
            k = 0
            while (1 << k) <= h and k <= 64:
                for v in ((1 << k), (1 << k) - 1):
                    if l <= v <= h:
                        vs.append(v)
                k += 1
            pool[x] = sorted(set(vs))
        for i, x in enumerate(free):
            for vx in pool[x]:
                a = dict(base)
                a[x] = vx
                cands.append(a)
        npair = 0
        for i, x in enumerate(free):
            for y in free[i + 1:]:
                for vx in pool[x][::2] if len(pool[x]) > 40 else pool[x]:
                    for vy in pool[y][::2] if len(pool[y]) > 40 else pool[y]:
                        a = dict(base)
                        a[x] = vx
                        a[y] = vy
                        cands.append(a)
                        npair += 1
                if npair > 30000:
                    break
            if npair > 30000:
                break
    # products next to a power of two: x drawn from the upper part of its range, y = floor((2^m - 1) / x) (and y + 1) - the
    # carry out of a doubled or accumulated partial product fires only when x*y sits just below 2^31, 2^32, 2^63 or 2^64,
    # a set far too thin for the random candidates and without a power-of-two point of its own
    if 2 <= len(free) <= 10:
        base = {x: case.box[x][0] for x in free}
        nprod = 0
        for x in free:
            lx, hx = case.box[x]
            if hx < 4:
                continue
            xs = [hx, hx - 1] + [rnd.randint(max(lx, hx // 2), hx) for _ in range(10)]
            for y in free:
                if y == x:
                    continue
                ly, hy = case.box[y]
                for m in (31, 32, 63, 64):
                    for vx in xs:
                        if vx <= 0:
                            continue
                        q = ((1 << m) - 1) // vx
                        for vy in (q, q + 1, q - 1):
                            if ly <= vy <= hy:
                                a = dict(base)
                                a[x] = vx
                                a[y] = vy
                                cands.append(a)
                                nprod += 1
            if nprod > 20000:
                break
    for a in cands:
        try:
            a = complete(dict(a))
            if any(not (case.box[x][0] <= a[x] <= case.box[x][1]) for x in case.box if x in a):
                continue
            ok = True
            for p, op in case.cons:
                v = p.ev(a)
                if (op == '>=0' and v < 0) or (op == '<0' and v >= 0):
                    ok = False
                    break
            if not ok:
                continue
            if pred is not None:
                if pred(a):
                    return {x: a[x] for x in free}
                continue
            v = diff.ev(a)
            if (v != 0) if exact else (v % P != 0):
                return {x: a[x] for x in free}
        except KeyError:
            continue
    # random sampling found nothing: constructive search
    if pred is not None:
        return guided_witness(case, [], pred, seed)
    if exact:
        chk = lambda a: diff.ev(a) != 0
    else:
        chk = lambda a: diff.ev(a) % P != 0
    # the residual of a failing cell is usually a small integer combination of quotient symbols: ask for residual >= 1,
    # then <= -1, over the integers
    pins = {x: Poly.const(l) for x, (l, h) in case.box.items() if l == h and x in diff.vars()}
    dl = diff.subst(pins) if pins else diff
    if all(len(m) == 1 and m[0][1] == 1 for m in dl.d if m != ()):
        for extra in ([(dl - 1, '>=0')], [(dl, '<0')]):
            w = guided_witness(case, extra, chk, seed)
            if w is not None:
                return w
    w = guided_witness(case, [], chk, seed, budget=1500)
    if w is not None:
        return w
    # a small operand (an 8-bit coefficient, a shift count) multiplies a large one: with the small one pinned every product is
    # linear and the constructive search succeeds or fails at once - try each of its values
    small = [x for x in free if 1 <= case.box[x][1] - case.box[x][0] <= 255]
    for x in small[:2]:
        l, h = case.box[x]
        vals = list(range(l, h + 1))
        # spread the order: extremes and odd multipliers first
        vals.sort(key=lambda v: (v % 2 == 0, -v))
        for v in vals:
            c2 = case.copy()
            c2.box[x] = (v, v)
            w = guided_witness(c2, [], chk, seed, budget=300)
            if w is not None:
                return w
    return None
