"""Shared driver: one overload against a signature-derived specification (C16, C17)."""
from . import front, contracts, harness
from .interp import Incomplete, Sink
from .ir import IRError
from .specs.base_spec import NoSpec
from .poly import Poly, FV


def site_of(mod, name):
    f, l = mod.fn_loc(name)
    return '%s:%s' % (front.rel(f), l)


def sink_site(e, dflt):
    if e.loc and e.loc[0]:
        return '%s:%s' % (front.rel(e.loc[0]), e.loc[1])
    return dflt


def alias_sets(params):
    """aliasing hypotheses the signature permits: unit-stride operands of the same kind as the output"""
    ps = [p for p in params if not p.is_this]
    names = [p.name for p in ps]
    if any(n.startswith('offset') or n.startswith('stride') for n in names):
        return []
    out = ps[0]
    ins = [p for p in ps[1:] if p.irty[0] == 'p']
    norm = lambda p: p.dty.replace(' const', '').replace('&', '*').replace(' ', '')
    same = lambda p, q: norm(p) == norm(q) and p.irty == q.irty
    hs = []
    for p in ins:
        if same(out, p):
            hs.append({p.name: out.name})
    if len(ins) == 2 and same(ins[0], ins[1]):
        hs.append({ins[1].name: ins[0].name})
        if same(out, ins[0]):
            hs.append({ins[0].name: out.name, ins[1].name: out.name})
    return hs


def check_overload(rep, mod, cfg, name, specfn, alias=None, extents_fn=None, sample=True):
    dem = mod.dem[name]
    tag = '%s/%s%s' % (cfg, dem, '' if not alias else ' alias=' + ','.join('%s=%s' % kv for kv in sorted(alias.items())))
    site = site_of(mod, name)
    ctx = contracts.Ctx()
    summ, _ = contracts.wrapper_summaries(mod, ctx)
    summ.pop(name, None)       # the routine under analysis is interpreted, not summarised
    try:
        ext = extents_fn(harness.describe(mod, name)) if extents_fn else None
        eff = harness.run_routine(mod, name, summ, alias=alias, extents=ext)
    except (Incomplete, IRError, NoSpec) as e:
        rep.incomplete('value:' + tag, 'wrapper-value', site, str(e))
        return
    except Sink as e:
        rep.refute('safety:' + tag, 'wrapper-safety', sink_site(e, site), '%s (in %s)' % (e, ' <- '.join(e.stack[:3])))
        return
    try:
        exp_w, exp_r, subst, desc = specfn(dem, eff.params)
    except NoSpec as e:
        rep.incomplete('value:' + tag, 'wrapper-value', site, 'signature outside the grammar: %s' % e)
        return
    got = {}
    for k, v in eff.writes.items():
        if isinstance(v, int):
            v = FV.const(v)
        if not isinstance(v, FV):
            rep.incomplete('value:' + tag, 'wrapper-value', site, 'non-field value %r written to %s' % (v, k))
            return
        nf = v.nf
        if subst and (nf.vars() & set(subst)):
            nf = nf.subst(subst).modp()
        got[k] = nf
    bad = []
    for k in sorted(set(got) | set(exp_w), key=str):
        g, e = got.get(k), exp_w.get(k)
        if g is None:
            bad.append('designated output cell %s+%s is not written' % k)
        elif e is None:
            bad.append('cell %s+%s is written but not designated (value %s)' % (k[0], k[1], str(g)[:120]))
        elif g != e:
            bad.append('cell %s+%s holds %s, specification %s' % (k[0], k[1], str(g)[:160], str(e)[:160]))
    if bad:
        rep.refute('value:' + tag, 'wrapper-value', site, '; '.join(bad[:3]) + (' (+%d more)' % (len(bad) - 3) if len(bad) > 3 else ''))
    else:
        rep.ok('value:' + tag, 'wrapper-value', site, desc)
    extra = sorted((k for k in eff.reads if k not in exp_r and k not in exp_w), key=str)
    if extra:
        rep.refute('reads:' + tag, 'wrapper-footprint', site, 'reads outside the designated cells: %s' % extra[:4])
    else:
        rep.ok('reads:' + tag, 'wrapper-footprint', site, '%d cells read' % len(eff.reads))
    if ctx.violations:
        v = ctx.violations[0]
        rep.refute('pre:' + tag, 'callsite-precondition', site,
                   '%s operand %s lane %d: %s' % (v['callee'], v['operand'], v['lane'], v['detail']))
    else:
        rep.ok('pre:' + tag, 'callsite-precondition', site, '%d kernel call sites' % len(ctx.sites))
    if not alias and sample and exp_w:
        k0 = sorted(exp_w, key=str)[0]
        rep.sample(dict(config=cfg, function=dem, site=site, spec=desc, cell=str(k0), value=str(exp_w[k0])[:200]))
    for a in eff.interp.assumptions:
        if a not in rep.assumptions:
            rep.assumptions.append(a)
