"""Shared driver: one overload against a signature-derived specification (C16, C17)."""
from . import front, contracts, harness
from .interp import Incomplete, Sink
from .ir import IRError
from .specs.base_spec import NoSpec
from .poly import Poly, FV, as_poly, P
import re as _re
import re


from .report import Report


def site_of(mod, name):
    f, l = mod.fn_loc(name)
    return '%s:%s' % (front.rel(f), l)


def sink_site(e, dflt):
    if e.loc and e.loc[0]:
        return '%s:%s' % (front.rel(e.loc[0]), e.loc[1])
    return dflt


def alias_sets(params):
    """aliasing hypotheses the signature permits: unit-stride operands of the same kind as the output"""
    ps = [p for p in params if not p.is_this]
    names = [p.name for p in ps]
    if any(n.startswith('offset') or n.startswith('stride') for n in names):
        return []
    out = ps[0]
    ins = [p for p in ps[1:] if p.irty[0] == 'p']
    norm = lambda p: p.dty.replace(' const', '').replace('&', '*').replace(' ', '')
    same = lambda p, q: norm(p) == norm(q) and p.irty == q.irty
    hs = []
    for p in ins:
        if same(out, p):
            hs.append({p.name: out.name})
    if len(ins) == 2 and same(ins[0], ins[1]):
        hs.append({ins[1].name: ins[0].name})
        if same(out, ins[0]):
            hs.append({ins[0].name: out.name, ins[1].name: out.name})
    return hs


def check_overload(rep, mod, cfg, name, specfn, alias=None, extents_fn=None, sample=True):
    dem = mod.dem[name]
    tag = '%s/%s%s' % (cfg, dem, '' if not alias else ' alias=' + ','.join('%s=%s' % kv for kv in sorted(alias.items())))
    site = site_of(mod, name)
    ctx = contracts.Ctx()
    summ, _ = contracts.wrapper_summaries(mod, ctx)
    summ.pop(name, None)       # the routine under analysis is interpreted, not summarised
    # path splitting on equality tests of scalar shape parameters (e.g. a fast path for stride == 1): each path is
    # analysed with the decided value substituted and compared with the specification under the same substitution
    try:
        params0 = harness.describe(mod, name)
        ext = extents_fn(params0) if extents_fn else None
    except (Incomplete, NoSpec) as e:
        rep.incomplete('value:' + tag, 'wrapper-value', site, str(e))
        return
    if not harness.is_pinned(dem):
        # an overload the pinned tree does not have: covered when its parameter list is inside the signature grammar (then it is
        # checked like any other), mentioned and left alone otherwise - the grammar was frozen on the overloads of the pinned tree
        try:
            specfn(dem, params0)
        except NoSpec as e:
            rep.note('NOT COVERED: new overload %s (%s) has a parameter list outside the signature grammar: %s' % (dem, site, e))
            return
        except Exception:
            pass
    try:
        for dec, eff, values, atom_subst in explore_paths(mod, name, summ, ctx, params0, alias=alias, extents=ext,
                                                         opts0={'trace_rw': True} if not alias else None):
            if not alias:
                _phase_discipline(rep, mod, dem, tag, site, eff)
            ptag = tag + ('' if not dec else ' path[' + ','.join(
                ('%s%s%d' % (k[1], '<=' if v else '>', k[2])) if k[0] == 'rng' else
                ('(%s)%s0' % (v[1], '==' if v[0] else '!=')) if k[0] == 'lin' else
                (('%s%s%d' % (k[0], '==' if v else '!=', k[1])) if k[0] != 'res' else ('(%s)%s0' % (v[1], '==' if v[0] else '!=')))
                for k, v in sorted(dec.items(), key=str)) + ']')
            _compare(rep, mod, cfg, name, dem, ptag, site, specfn, eff, ctx, values, alias, sample, atom_subst)
    except (Incomplete, IRError, NoSpec) as e:
        if 'trunc of symbolic value' in str(e) and not alias:
            # the routine narrows a shape-derived value: the symbolic run cannot follow it; probe concrete shape values on
            # both sides of 2^31 and 2^32 instead (a refutation is then a concrete shape; passing probes decide nothing more)
            scal = [p.name for p in params0 if p.irty[0] == 'i' and p.dty != 'E']
            probes = [3, (1 << 31) // 3 + 1, (1 << 31) - 1, 1 << 31, (1 << 31) + 5, (1 << 32) - 1, 1 << 32, (1 << 32) + 3, (1 << 33) + 1]
            failed = False
            for v in probes:
                rp = Report(rep.pid, rep.tier)
                ctx2 = contracts.Ctx()
                summ2, _ = contracts.wrapper_summaries(mod, ctx2)
                summ2.pop(name, None)
                vals = {n_: v for n_ in scal}
                try:
                    for dec, eff, values, atom_subst in explore_paths(mod, name, summ2, ctx2, params0, alias=alias, extents=ext, values0=vals):
                        _compare(rp, mod, cfg, name, dem, tag + ' %s' % vals, site, specfn, eff, ctx2, values, alias, False, atom_subst)
                except Sink as e2:
                    rp.refute('safety:' + tag, 'wrapper-safety', sink_site(e2, site), '%s with %s' % (e2, vals))
                except (Incomplete, IRError, NoSpec):
                    continue
                bad = [o for o in rp.obl if o['status'] == 'refuted']
                if bad:
                    failed = True
                    rep.refute('value:' + tag, 'wrapper-value', site, 'with %s: %s' % (vals, bad[0]['detail'][:300]), witness=vals)
                    break
            if not failed:
                rep.incomplete('value:' + tag, 'wrapper-value', site, '%s (a shape value is narrowed; probes at 2^31 / 2^32 agree with the specification, all other values are not decided)' % e)
            return
        rep.incomplete('value:' + tag, 'wrapper-value', site, str(e))
    except Sink as e:
        rep.refute('safety:' + tag, 'wrapper-safety', sink_site(e, site), '%s (in %s)' % (e, ' <- '.join(e.stack[:3])))


def explore_paths(mod, name, summ, ctx, params0, alias=None, extents=None, elem=None, values0=None, opts0=None, maxpaths=16):
    """interpret a routine along every path over (a) equality tests of scalar shape parameters against constants and
    (b) residue tests on field data (comparisons of canonical values); yields (decisions, effect, shape values, atom substitution)"""
    scalars = {p.name for p in params0 if p.irty[0] == 'i' and p.dty != 'E'}
    work = [{}]
    npaths = 0
    while work:
        dec = work.pop()
        npaths += 1
        if npaths > maxpaths:
            raise Incomplete('more than %d shape- or residue-dependent paths' % maxpaths)
        values = dict(values0 or {})
        values.update({k[0]: k[1] for k, v in dec.items() if k[0] not in ('res', 'rng', 'lin') and v})
        atom_subst = {}
        for k, v in dec.items():
            if k[0] == 'res' and v[0]:
                nf = v[1]
                ms = [m for m in nf.d if m != ()]
                if len(ms) == 1 and len(ms[0]) == 1 and ms[0][0][1] == 1 and nf.d[ms[0]] in (1, P - 1):
                    k0 = nf.d.get((), 0)
                    atom_subst[ms[0][0][0]] = Poly.const((-k0 if nf.d[ms[0]] == 1 else k0) % P)
                else:
                    raise Incomplete('the routine branches on a residue test that does not pin a single operand cell (%s = 0)' % nf)

        # equalities between integer atoms (entries of index arrays, scalar parameters) decided true on this path: one symbol
        # with coefficient +-1 is expressed through the others, in the effect and in the specification alike
        lin_subst = {}
        for k, v in dec.items():
            if k[0] == 'lin' and v[0]:
                dd = v[1]
                for m, cf in sorted(dd.d.items(), key=str):
                    if m != () and len(m) == 1 and m[0][1] == 1 and cf in (1, -1) and m[0][0] not in lin_subst:
                        rest = dd - Poly({m: cf})
                        lin_subst[m[0][0]] = (rest * (-cf))
                        break
                else:
                    raise Incomplete('the routine branches on an equality that does not determine one symbol (%s = 0)' % dd)
        # ranges of scalar shape parameters decided so far on this path (order tests against constants)
        ranges = {}
        for k, v in dec.items():
            if k[0] == 'rng':
                lo, hi = ranges.get(k[1], (0, (1 << 64) - 1))
                if v:
                    hi = min(hi, k[2])
                else:
                    lo = max(lo, k[2] + 1)
                ranges[k[1]] = (lo, hi)

        def interval(d):
            lo = hi = d.d.get((), 0)
            for m, c in d.d.items():
                if m == ():
                    continue
                if len(m) != 1 or m[0][1] != 1 or m[0][0] not in ranges:
                    return None
                l, h = ranges[m[0][0]]
                if c > 0:
                    lo += c * l
                    hi += c * h
                else:
                    lo += c * h
                    hi += c * l
            return lo, hi

        def sym_trunc(I_, x, ws, wd):
            iv = interval(as_poly(x))
            if iv is not None and 0 <= iv[0] and iv[1] < (1 << (wd - 1)):
                return x            # the value provably fits the narrow signed type on this path
            raise Incomplete('trunc of symbolic value')

        def sym_fits(r, w):
            if not r.vars() or not all(v in scalars for v in r.vars()):
                return None
            for v in r.vars():
                ranges.setdefault(v, (0, (1 << 64) - 1))
            iv = interval(r)
            if iv is None:
                return None
            return bool(-(1 << (w - 1)) <= iv[0] and iv[1] < (1 << (w - 1)))

        def decide(pred, a, b, dec=dec):
            d = as_poly(a) - as_poly(b)
            if pred in ('ult', 'ule', 'ugt', 'uge', 'slt', 'sle', 'sgt', 'sge') and d.vars() and all(v in scalars for v in d.vars()):
                for v in d.vars():
                    ranges.setdefault(v, (0, (1 << 64) - 1))
                iv = interval(d)
                if iv is not None:
                    lo, hi = iv
                    tbl = {'lt': (hi < 0, lo >= 0), 'le': (hi <= 0, lo > 0), 'gt': (lo > 0, hi <= 0), 'ge': (lo >= 0, hi < 0)}[pred[1:]]
                    if tbl[0]:
                        return True
                    if tbl[1]:
                        return False
                # undecided: split on "symbol <= t" when the test is k*symbol + c0 with one symbol
                ms = [m for m in d.d if m != ()]
                if len(ms) == 1 and len(ms[0]) == 1 and ms[0][0][1] == 1:
                    sym = ms[0][0][0]
                    kk = d.d[ms[0]]
                    c0 = d.d.get((), 0)
                    # d = kk*sym + c0 ; the truth of `d pred 0` changes at one threshold of sym
                    if kk > 0:
                        t = {'lt': (-c0 - 1) // kk, 'le': (-c0) // kk, 'gt': (-c0) // kk, 'ge': (-c0 - 1) // kk}[pred[1:]]
                    else:
                        k2 = -kk
                        t = {'lt': c0 // k2, 'le': (c0 + k2 - 1) // k2 - 1, 'gt': (c0 + k2 - 1) // k2 - 1, 'ge': c0 // k2}[pred[1:]]
                    key = ('rng', sym, t)
                    if key not in dec:
                        raise _NeedDecision(key)
                    # decided now that the range is split at t: re-evaluate
                    lo, hi = ranges.get(sym, (0, (1 << 64) - 1))
                    if dec[key]:
                        hi = min(hi, t)
                    else:
                        lo = max(lo, t + 1)
                    ranges[sym] = (lo, hi)
                    iv = interval(d)
                    if iv is not None:
                        lo2, hi2 = iv
                        tbl = {'lt': (hi2 < 0, lo2 >= 0), 'le': (hi2 <= 0, lo2 > 0), 'gt': (lo2 > 0, hi2 <= 0), 'ge': (lo2 >= 0, hi2 < 0)}[pred[1:]]
                        if tbl[0]:
                            return True
                        if tbl[1]:
                            return False
                return None
            cv = [v for v in d.vars() if v in ctx.canon]
            if cv and pred in ('eq', 'ne') and all(v in ctx.canon for v in d.vars()):
                nf = Poly()
                for m, c in d.d.items():
                    if m == ():
                        nf = nf + c
                    elif len(m) == 1 and m[0][1] == 1 and c in (1, -1):
                        nf = nf + ctx.canon[m[0][0]] * c
                    else:
                        return None
                nf = nf.modp()
                key = ('res', nf.key())
                nkey = ('res', (-nf).modp().key())
                if key in dec:
                    return dec[key][0] if pred == 'eq' else (not dec[key][0])
                if nkey in dec:
                    return dec[nkey][0] if pred == 'eq' else (not dec[nkey][0])
                raise _NeedDecision(key, nf)
            if pred in ('eq', 'ne') and d.vars() and all(len(m) == 1 and m[0][1] == 1 for m in d.d if m != ()) \
                    and not (len(d.vars()) == 1 and list(d.vars())[0] in scalars) \
                    and all((v in scalars) or _re.match(r'^[A-Za-z_]\w*\[', v) for v in d.vars()) and not any(v in ctx.canon for v in d.vars()):
                key = ('lin', d.key())
                nkey = ('lin', (-d).key())
                if key in dec:
                    return dec[key][0] if pred == 'eq' else (not dec[key][0])
                if nkey in dec:
                    return dec[nkey][0] if pred == 'eq' else (not dec[nkey][0])
                raise _NeedDecision(key, d)
            if pred not in ('eq', 'ne') or len(d.d) > 2:
                return None
            sym = [m for m in d.d if m != ()]
            if len(sym) != 1 or len(sym[0]) != 1 or sym[0][0][1] != 1 or sym[0][0][0] not in scalars:
                return None
            co = d.d[sym[0]]
            k0 = d.d.get((), 0)
            if co not in (1, -1):
                return None
            key = (sym[0][0][0], (-k0) * co)
            if key not in dec:
                raise _NeedDecision(key)
            return dec[key] if pred == 'eq' else (not dec[key])
        ctx.violations.clear()
        ctx.symbolic_canon = True
        opts = dict(opts0 or {})
        opts['decide'] = decide
        opts.setdefault('symbolic_trunc', sym_trunc)
        opts.setdefault('symbolic_fits', sym_fits)
        try:
            eff = harness.run_routine(mod, name, summ, alias=alias, extents=extents, values=values, opts=opts, elem=elem)
        except _NeedDecision as nd:
            for v in (True, False):
                d2 = dict(dec)
                d2[nd.key] = (v, nd.nf) if nd.nf is not None else v
                work.append(d2)
            continue
        if lin_subst:
            values = dict(values)
            values.update(lin_subst)
        yield dec, eff, values, atom_subst


class _NeedDecision(Exception):
    def __init__(s, key, nf=None):
        Exception.__init__(s, str(key))
        s.key = key
        s.nf = nf


def _subst_key(k, mp):
    reg, off = k
    if isinstance(off, Poly):
        off = off.subst(mp)
        if off.isconst():
            off = off.cval()
    return (reg, off)


_PHASE = None
PHASE_LOG = None        # set to a set() to collect the overloads that keep the discipline (generation of the pinned table)


def reads_before_writes(eff):
    """do all reads of array operands precede the first write to an array operand?  (registers passed by reference are left out:
    a register and an array cannot partially overlap in any sensible call)"""
    rw = getattr(eff.interp, 'rw', None)
    if rw is None:
        return None
    arrays = {p.name for p in eff.params if p.region is not None and re.match(r'^(E|ul)( const)?\s*\*$', p.dty)}
    seen_w = False
    for kind, reg, off in rw:
        if reg not in arrays:
            continue
        if kind == 'w':
            seen_w = True
        elif seen_w:
            return False
    return True


def _phase_discipline(rep, mod, dem, tag, site, eff):
    """overlap discipline: the routines of the pinned tree listed in specs/pinned_phase.json gather all their operands before
    they store any result, so their result is the one for the operand values at entry however result and operand arrays overlap
    (shifted by one coordinate, re-strided in place ...).  A routine that has the discipline on the pinned tree must keep it:
    a read after a write changes the result for overlapping calls."""
    global _PHASE
    ok = reads_before_writes(eff)
    if PHASE_LOG is not None:
        PHASE_LOG.add((dem, ok))
    if _PHASE is None:
        import json, os
        try:
            _PHASE = set(json.load(open(os.path.join(os.path.dirname(__file__), 'specs', 'pinned_phase.json'))))
        except (OSError, ValueError):
            _PHASE = set()
    if dem in _PHASE and ok is False:
        rep.refute('overlap:' + tag, 'wrapper-overlap', site, 'an array operand is read after a result has been stored: with result and operand '
                   'arrays that overlap (shifted by one element, re-strided in place) the routine no longer computes on the operand values '
                   'at entry, as it does on the pinned tree (all gathers before the first store)')
    elif dem in _PHASE and ok:
        rep.ok('overlap:' + tag, 'wrapper-overlap', site, 'all operand arrays are read before the first result is stored')


def _compare(rep, mod, cfg, name, dem, tag, site, specfn, eff, ctx, values, alias, sample, atom_subst=None):
    try:
        exp_w, exp_r, subst, desc = specfn(dem, eff.params)
    except NoSpec as e:
        rep.incomplete('value:' + tag, 'wrapper-value', site, 'signature outside the grammar: %s' % e)
        return
    post = {k: v for k, v in (values or {}).items() if isinstance(v, Poly)}     # relations decided on the path (x := y + 3): applied to both sides
    if values:
        mp = {k: (v if isinstance(v, Poly) else Poly.const(v)) for k, v in values.items()}
        # cell atoms embed their index text: rebuild names under the substitution
        def sub_poly(p):
            out = Poly()
            for m, c in p.d.items():
                t = Poly.const(c)
                for x, e in m:
                    nx = _rename_atom(x, mp)
                    f = mp.get(nx, Poly.var(nx))
                    for _ in range(e):
                        t = t * f
                out = out + t
            return out.modp()
        exp_w = {_subst_key(k, mp): sub_poly(v) for k, v in exp_w.items()}
        exp_r = {_subst_key(k, mp) for k in exp_r}
    if atom_subst:
        exp_w = {k: v.subst(atom_subst).modp() for k, v in exp_w.items()}
    got = {}
    for k, v in eff.writes.items():
        if isinstance(v, int):
            v = FV.const(v)
        if not isinstance(v, FV):
            rep.incomplete('value:' + tag, 'wrapper-value', site, 'non-field value %r written to %s' % (v, k))
            return
        nf = v.nf
        if post:
            nf = sub_poly(nf)
            k = _subst_key(k, mp)
        if subst and (nf.vars() & set(subst)):
            nf = nf.subst(subst).modp()
        if atom_subst and (nf.vars() & set(atom_subst)):
            nf = nf.subst(atom_subst).modp()
        got[k] = nf
    bad = []
    for k in sorted(set(got) | set(exp_w), key=str):
        g, e = got.get(k), exp_w.get(k)
        if g is None:
            bad.append('designated output cell %s+%s is not written' % k)
        elif e is None:
            bad.append('cell %s+%s is written but not designated (value %s)' % (k[0], k[1], str(g)[:120]))
        elif g != e:
            bad.append('cell %s+%s holds %s, specification %s' % (k[0], k[1], str(g)[:160], str(e)[:160]))
    if bad:
        rep.refute('value:' + tag, 'wrapper-value', site, '; '.join(bad[:3]) + (' (+%d more)' % (len(bad) - 3) if len(bad) > 3 else ''))
    else:
        rep.ok('value:' + tag, 'wrapper-value', site, desc)
    reads_ = {(_subst_key(k, mp) if post else k) for k in eff.reads}
    extra = sorted((k for k in reads_ if k not in exp_r and k not in exp_w), key=str)
    if extra:
        rep.refute('reads:' + tag, 'wrapper-footprint', site, 'reads outside the designated cells: %s' % extra[:4])
    else:
        rep.ok('reads:' + tag, 'wrapper-footprint', site, '%d cells read' % len(eff.reads))
    if ctx.violations:
        v = ctx.violations[0]
        rep.refute('pre:' + tag, 'callsite-precondition', site,
                   '%s operand %s lane %d: %s' % (v['callee'], v['operand'], v['lane'], v['detail']))
    else:
        rep.ok('pre:' + tag, 'callsite-precondition', site, '%d kernel call sites' % len(ctx.sites))
    if not alias and sample and exp_w:
        k0 = sorted(exp_w, key=str)[0]
        rep.sample(dict(config=cfg, function=dem, site=site, spec=desc, cell=str(k0), value=str(exp_w[k0])[:200]))
    for a in eff.interp.assumptions:
        if a not in rep.assumptions:
            rep.assumptions.append(a)


def _rename_atom(x, mp):
    """atom names are 'region[index polynomial]': re-evaluate the index under a substitution of scalar symbols"""
    m = _re.match(r'^([^\[]+)\[(.*)\]$', x)
    if not m:
        return x
    idx = m.group(2)
    if not any(k in idx for k in mp):
        return x
    # parse the printed polynomial (sum of c*sym*sym^e terms)
    p = Poly()
    for term in idx.split(' + '):
        co = 1
        mono = {}
        for f in term.split('*'):
            f = f.strip()
            if _re.match(r'^-?\d+$', f):
                co *= int(f)
            else:
                mm = _re.match(r'^(.*)\^(\d+)$', f)
                if mm:
                    mono[mm.group(1)] = mono.get(mm.group(1), 0) + int(mm.group(2))
                else:
                    mono[f] = mono.get(f, 0) + 1
        p = p + Poly({tuple(sorted(mono.items())): co})
    p = p.subst(mp)
    return '%s[%s]' % (m.group(1), p)
