"""Signature-derived oracle for the base-field copy/add/sub/mul wrappers (DESIGN Appendix B, C17).

The meaning of an overload is computed from its *name and parameter list only* (never from its body):
backend suffix -> width W; parameter names -> roles (output, operand a, operand b, stride/offset of each);
parameter types -> access kind (register lane k, array with uniform stride, array with index list, broadcast).
A signature outside the grammar raises NoSpec (ANALYSIS-INCOMPLETE), it is never guessed.
"""
import re
from ..poly import Poly, C, as_poly


class NoSpec(Exception):
    pass


ROLE_A = ('a', 'a4', 'a8', 'a_', 'in1')
ROLE_B = ('b', 'b4', 'b8', 'b_', 'in2')
ROLE_C = ('c', 'c4', 'c8', 'c_', 'result', 'dst', 'dst_')
OFF_A = ('offset_a', 'offset1', 'offsets1')
OFF_B = ('offset_b', 'offset2', 'offsets2')
OFF_C = ('offset_c',)


def cell(reg, idx):
    return Poly.var('%s[%s]' % (reg, as_poly(idx)))


def is_vec(dt):
    return re.match(r'V\d( const)?\s*&$', dt) is not None


def access(p, off, k, regname):
    """(value atom poly, read key) of element k of operand p"""
    dt = p.dty
    rn = regname(p)
    if dt == 'E':
        return Poly.var(p.name), None
    if is_vec(dt):
        if off is not None:
            raise NoSpec('offset given for register operand %s' % p.name)
        return cell(rn, k), (rn, 8 * k)
    if dt in ('E const&', 'E&'):
        if off is not None:
            raise NoSpec('offset given for reference operand %s' % p.name)
        return cell(rn, 0), (rn, 0)
    if dt in ('E const*', 'E*'):
        if off is None:
            idx = C(k)
        elif off.dty in ('ul', 'int', 'long'):
            idx = Poly.var(off.name) * k
        elif off.dty in ('ul*', 'ul const*'):
            idx = Poly.var('%s[%d]' % (regname(off), k))
        else:
            raise NoSpec('offset parameter %s of type %s' % (off.name, off.dty))
        key = idx * 8
        return cell(rn, idx), (rn, key.cval() if key.isconst() else key)
    raise NoSpec('operand %s of type %s' % (p.name, dt))


def out_key(p, off, k, regname):
    dt = p.dty
    rn = regname(p)
    if is_vec(dt):
        if off is not None:
            raise NoSpec('offset given for register output')
        return (rn, 8 * k)
    if dt == 'E*':
        if off is None:
            idx = C(k)
        elif off.dty in ('ul', 'int', 'long'):
            idx = Poly.var(off.name) * k
        elif off.dty in ('ul*', 'ul const*'):
            idx = Poly.var('%s[%d]' % (regname(off), k))
        else:
            raise NoSpec('offset parameter %s of type %s' % (off.name, off.dty))
        key = idx * 8
        return (rn, key.cval() if key.isconst() else key)
    raise NoSpec('output %s of type %s' % (p.name, dt))


def spec(dem, params, regname=lambda p: p.region.name if p.region is not None else p.name):
    """-> (expected writes {(region, offkey): Poly mod p}, allowed reads set, description)"""
    m = re.match(r'Goldilocks::(copy|add|sub|mul)_(avx512|avx|batch)\(', dem)
    if not m:
        raise NoSpec('not a base-field wrapper: ' + dem)
    op, be = m.groups()
    W = 8 if be == 'avx512' else 4
    ps = [p for p in params if not p.is_this]
    names = [p.name for p in ps]
    byname = {p.name: p for p in ps}
    if len(set(names)) != len(names):
        raise NoSpec('duplicate parameter names')
    used = set()

    def pick(cands):
        f = [n for n in names if n in cands]
        if len(f) > 1:
            raise NoSpec('ambiguous roles %s' % f)
        if f:
            used.add(f[0])
            return byname[f[0]]
        return None

    reads = set()
    writes = {}
    if op == 'copy':
        # the stride parameter applies to the pointer it follows; stride_dst is explicit
        dst = pick(('dst', 'dst_'))
        src = pick(('src', 'src_'))
        if dst is None or src is None or names[0] != dst.name:
            raise NoSpec('copy roles')
        sd = pick(('stride_dst',))
        st = pick(('stride',))
        off_dst = sd
        off_src = None
        if st is not None:
            i = names.index(st.name)
            prev = names[i - 1]
            if prev == src.name:
                off_src = st
            elif prev == dst.name and sd is None:
                off_dst = st
            else:
                raise NoSpec('stride position')
        if set(names) - used:
            raise NoSpec('unknown parameters %s' % sorted(set(names) - used))
        for k in range(W):
            v, rk = access(src, off_src, k, regname)
            if rk:
                reads.add(rk)
            writes[out_key(dst, off_dst, k, regname)] = v
        for o in (off_dst, off_src):
            if o is not None and o.dty.endswith('*'):
                for k in range(W):
                    reads.add((regname(o), 8 * k))
        return writes, reads, 'copy W=%d' % W
    c = pick(ROLE_C)
    a = pick(ROLE_A)
    b = pick(ROLE_B)
    if c is None or a is None or b is None or names[0] != c.name:
        raise NoSpec('roles of %s' % names)
    oa = pick(OFF_A)
    ob = pick(OFF_B)
    oc = pick(OFF_C)
    if set(names) - used:
        raise NoSpec('unknown parameters %s' % sorted(set(names) - used))
    for k in range(W):
        x, rk = access(a, oa, k, regname)
        if rk:
            reads.add(rk)
        y, rk = access(b, ob, k, regname)
        if rk:
            reads.add(rk)
        v = {'add': x + y, 'sub': x - y, 'mul': x * y}[op].modp()
        writes[out_key(c, oc, k, regname)] = v
    for o in (oa, ob, oc):
        if o is not None and o.dty.endswith('*'):
            for k in range(W):
                reads.add((regname(o), 8 * k))
    return writes, reads, '%s W=%d' % (op, W)


def inplace_hyps(dem, params):
    """in-place hypotheses the signature permits (see ext_spec.inplace_hyps): output aliased with an operand of the same
    access kind when no offset / stride parameter is present"""
    m = re.match(r'Goldilocks::(copy|add|sub|mul)_(avx512|avx|batch)\(', dem)
    if not m or m.group(1) == 'copy':
        return []
    ps = [p for p in params if not p.is_this]
    names = [p.name for p in ps]
    if any(n.startswith('offset') or n.startswith('stride') for n in names):
        # read-only hypothesis: both operand arrays are the same array, each with its own stride / index list
        a_ = [p for p in ps if p.name in ROLE_A]
        b_ = [p for p in ps if p.name in ROLE_B]
        nrm = lambda p: p.dty.replace(' const', '').replace(' ', '')
        hs = []
        if len(a_) == 1 and len(b_) == 1 and nrm(a_[0]) == 'E*' and nrm(b_[0]) == 'E*':
            hs.append({b_[0].name: a_[0].name})
        # a register has no stride: a register result may be the same object as a register operand whatever the other
        # operand's addressing is (acc = acc op b[k * stride])
        c_ = [p for p in ps if p.name in ROLE_C]
        if len(c_) == 1 and nrm(c_[0]) in ('V4&', 'V8&'):
            for q in a_ + b_:
                if nrm(q) == nrm(c_[0]):
                    hs.append({q.name: c_[0].name})
        return hs
    c = [p for p in ps if p.name in ROLE_C]
    a = [p for p in ps if p.name in ROLE_A]
    b = [p for p in ps if p.name in ROLE_B]
    if len(c) != 1 or len(a) != 1 or len(b) != 1:
        return []
    c, a, b = c[0], a[0], b[0]
    norm = lambda p: p.dty.replace(' const', '').replace(' ', '')
    if norm(c) not in ('E*', 'V4&', 'V8&'):
        return []
    elig = [p.name for p in (a, b) if norm(p) == norm(c)]
    hs = [{n: c.name} for n in elig]
    if len(elig) == 2:
        hs.append({elig[1]: elig[0]})
        hs.append({elig[0]: c.name, elig[1]: c.name})
    return hs
