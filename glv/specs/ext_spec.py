"""Signature-derived oracle for the batched / AVX2 / AVX512 cubic-extension routines (DESIGN Appendix B, C16).

Goldilocks3::<op><shape>_<backend>(...): the shape code fixes the dimension (1 = base field, 3 = extension) and
constancy (c = one value broadcast to all k) of operands a and b; the parameter kinds fix where element k,
component j lives.  Nothing is read from the body.
"""
import re
from ..poly import Poly, C, as_poly
from .base_spec import NoSpec, cell

# shape code -> (dim a, const a, dim b, const b)
SHAPES = {'': (3, 0, 3, 0), '13': (1, 0, 3, 0), '31': (3, 0, 1, 0), '33c': (3, 0, 3, 1), '13c': (1, 0, 3, 1),
          '1c3c': (1, 1, 3, 1), '31c': (3, 0, 1, 1)}
PAT = r'^Goldilocks3::(add|sub|mul)(\w*?)_(avx512|avx|batch)\('
KNOWN_PARAMS = re.compile(r'^(result|c|c_|c[012]_|a|a_|a[012]_|b|b_|b[012]_|aux[012]_|stride|stride[01]|stride_[abc]|offset_[ab])$')


def kind_of(p):
    dt = p.dty
    if re.match(r'V\d( const)?\s*&$', dt):
        return 'reg'
    if re.match(r'V\d( const)?\s*\*$', dt) or re.match(r'V\d( const)? \(&\)\s*\[3\]$', dt):
        return 'planar'
    if re.match(r'V\d$', dt):
        return 'regval'
    if dt in ('E*', 'E const*'):
        return 'arr'
    if re.match(r'E( const)? \(&\)\s*\[3\]$', dt):
        return 'ext1'
    if dt == 'E':
        return 'val'
    if dt in ('ul', 'unsigned int', 'int', 'long'):
        return 'stride'
    if dt in ('ul*', 'ul const*'):
        return 'index'
    raise NoSpec('parameter %s of type %s' % (p.name, dt))


def extents(params, W):
    out = {}
    for p in params:
        if p.is_this:
            continue
        k = kind_of(p)
        if k == 'planar':
            out[p.name] = 3 * 8 * W
        elif k == 'index':
            out[p.name] = 8 * W
    return out


def mulspec(A, B):
    a0, a1, a2 = A
    b0, b1, b2 = B
    return [a0 * b0 + a1 * b2 + a2 * b1,
            a0 * b1 + a1 * b0 + a1 * b2 + a2 * b1 + a2 * b2,
            a0 * b2 + a1 * b1 + a2 * b0 + a2 * b2]


def spec(dem, params, regname=lambda p: p.region.name if p.region is not None else p.name):
    """-> (expected writes, allowed reads, substitution for precomputed sums, description)"""
    m = re.match(PAT, dem)
    if not m:
        raise NoSpec('not a cubic-extension routine: ' + dem)
    op, sh, be = m.groups()
    if sh not in SHAPES:
        raise NoSpec('shape code %r' % sh)
    W = 8 if be == 'avx512' else 4
    dA, cA, dB, cB = SHAPES[sh]
    ps = [p for p in params if not p.is_this]
    T = {p.name: p for p in ps}
    N = [p.name for p in ps]
    for n in N:
        if not KNOWN_PARAMS.match(n):
            raise NoSpec('parameter name %r outside the role vocabulary' % n)
    K = {p.name: kind_of(p) for p in ps}
    reads = set()
    subst = {}
    exception = None
    # frozen exception (DESIGN Appendix B): mul_batch(result, a, b, b_) is a 33c product with the
    # precomputed sums b0+b1, b0+b2, b1+b2 in b_ (its body comment says so); every other name is regular
    if N == ['result', 'a', 'b', 'b_'] and op == 'mul' and sh == '' and be == 'batch':
        cB = 1
        exception = 'mul_batch(result,a,b,b_): constant b with precomputed sums'
        bs = [cell(regname(T['b']), j) for j in range(3)]
        rb_ = regname(T['b_'])
        subst = {'%s[%d]' % (rb_, 0): bs[0] + bs[1], '%s[%d]' % (rb_, 1): bs[0] + bs[2], '%s[%d]' % (rb_, 2): bs[1] + bs[2]}
        for j in range(3):
            reads.add((rb_, 8 * j))

    def stride_of(x):
        cands = ['stride_' + x, 'offset_' + x, {'a': 'stride0', 'b': 'stride1'}.get(x, '-')]
        f = [c_ for c_ in cands if c_ in T]
        if len(f) > 1:
            raise NoSpec('two strides for operand ' + x)
        if f:
            return T[f[0]]
        if x == 'b' and 'stride' in T:
            return T['stride']
        return None

    used = set()

    def base_index(x, dim, k):
        s_ = stride_of(x)
        if s_ is None:
            return C(k * dim)
        used.add(s_.name)
        if K[s_.name] == 'stride':
            return Poly.var(s_.name) * k
        if K[s_.name] == 'index':
            reads.add((regname(s_), 8 * k))
            return Poly.var('%s[%d]' % (regname(s_), k))
        raise NoSpec('stride %s' % s_.name)

    def operand(x, dim, const, k, j):
        if dim == 1 and j > 0:
            return None
        if x + '0_' in T:            # three separate registers by value
            for jj in range(3):
                used.add('%s%d_' % (x, jj))
            if dim != 3:
                raise NoSpec('component registers for a base operand')
            return Poly.var('%s%d_[%d]' % (x, j, k))
        cands = [n for n in (x, x + '_') if n in T and not (exception and n == 'b_')]
        if len(cands) != 1:
            raise NoSpec('operand %s: candidates %s' % (x, cands))
        p = T[cands[0]]
        used.add(p.name)
        kd = K[p.name]
        rn = regname(p)
        if kd == 'val':
            if dim != 1 or not const:
                raise NoSpec('by-value Element for a non-constant / extension operand %s' % x)
            return Poly.var(p.name)
        if kd == 'reg':
            if dim != 1:      # a register operand is per lane even for a 'constant' (pre-broadcast) operand
                raise NoSpec('single register for operand %s of dim %d' % (x, dim))
            reads.add((rn, 8 * k))
            return cell(rn, k)
        if kd == 'planar':
            if dim != 3:      # planar registers are per lane even for a 'constant' (pre-broadcast) operand
                raise NoSpec('planar registers for operand %s of dim %d' % (x, dim))
            reads.add((rn, 8 * (j * W + k)))
            return cell(rn, j * W + k)
        if kd == 'ext1':
            if not (dim == 3 and const):
                raise NoSpec('Element[3] reference for non-constant operand')
            reads.add((rn, 8 * j))
            return cell(rn, j)
        if kd == 'arr':
            if const:
                if stride_of(x) is not None and stride_of(x).name != 'stride':
                    raise NoSpec('stride for constant operand ' + x)
                reads.add((rn, 8 * j))
                return cell(rn, j)
            idx = base_index(x, dim, k) + j
            key = idx * 8
            reads.add((rn, key.cval() if key.isconst() else key))
            return cell(rn, idx)
        raise NoSpec('operand kind ' + kd)

    writes = {}
    for k in range(W):
        A = [operand('a', dA, cA, k, j) for j in range(3)]
        B = [operand('b', dB, cB, k, j) for j in range(3)]
        Z = C(0)
        if op == 'add':
            r = [(A[j] if A[j] is not None else Z) + (B[j] if B[j] is not None else Z) for j in range(3)]
        elif op == 'sub':
            r = [(A[j] if A[j] is not None else Z) - (B[j] if B[j] is not None else Z) for j in range(3)]
        else:
            if dA == 1:
                r = [A[0] * B[j] for j in range(3)]
            elif dB == 1:
                r = [A[j] * B[0] for j in range(3)]
            else:
                r = mulspec(A, B)
        for j in range(3):
            if 'result' in T:
                used.add('result')
                key = (regname(T['result']), 8 * (3 * k + j))
            elif 'c' in T and K['c'] == 'arr':
                used.add('c')
                sc = T.get('stride_c')
                if sc is None:
                    raise NoSpec('output c without stride_c')
                used.add('stride_c')
                if K['stride_c'] == 'stride':
                    base = Poly.var('stride_c') * k
                else:
                    base = Poly.var('%s[%d]' % (regname(sc), k))
                    reads.add((regname(sc), 8 * k))
                kk = (base + j) * 8
                key = (regname(T['c']), kk.cval() if kk.isconst() else kk)
            elif 'c_' in T and K['c_'] == 'planar':
                used.add('c_')
                key = (regname(T['c_']), 8 * (j * W + k))
            elif 'c0_' in T:
                for jj in range(3):
                    used.add('c%d_' % jj)
                if K['c0_'] != 'reg':
                    raise NoSpec('c0_ kind')
                key = (regname(T['c%d_' % j]), 8 * k)
            else:
                raise NoSpec('no output parameter recognised in %s' % N)
            writes[key] = r[j].modp()
    if 'aux0_' in T:
        for jj in range(3):
            used.add('aux%d_' % jj)
        if not ('b0_' in T and op == 'mul'):
            raise NoSpec('aux registers without component registers b')
        for k in range(W):
            b = [Poly.var('b%d_[%d]' % (j, k)) for j in range(3)]
            subst['aux0_[%d]' % k] = b[0] + b[1]
            subst['aux1_[%d]' % k] = b[0] + b[2]
            subst['aux2_[%d]' % k] = b[1] + b[2]
    if exception:
        used.add('b_')
    left = set(N) - used
    if left:
        raise NoSpec('parameters without a role: %s' % sorted(left))
    desc = '%s%s W=%d a:(dim %d%s) b:(dim %d%s)%s' % (op, sh, W, dA, ' const' if cA else '', dB, ' const' if cB else '',
                                                       ' [' + exception + ']' if exception else '')
    return writes, reads, subst, desc


def inplace_hyps(dem, params):
    """in-place hypotheses the signature permits: the output aliased with an operand of *identical* shape (extension,
    not a broadcast constant, same access kind as the output, no stride / index parameter anywhere), and the two operands
    aliased with each other under the same condition.  `x = x op y` on register triples or unit-stride arrays is how
    callers accumulate; cross-shape aliasing (a base-field array or a broadcast constant over the output) has no defined
    meaning and is not hypothesised."""
    m = re.match(PAT, dem)
    if not m:
        return []
    op, sh, be = m.groups()
    if sh not in SHAPES:
        return []
    dA, cA, dB, cB = SHAPES[sh]
    ps = [p for p in params if not p.is_this]
    T = {p.name: p for p in ps}
    try:
        K = {p.name: kind_of(p) for p in ps}
    except NoSpec:
        return []
    if any(k in ('stride', 'index') for k in K.values()):
        # with strides / index arrays only the read-only hypothesis is meaningful: both operand arrays are the same array (each
        # with its own stride - "multiply every element of a column by its first element"); nothing is written through them
        if 'a' in T and 'b' in T and K.get('a') == 'arr' and K.get('b') == 'arr' and T['a'].irty == T['b'].irty:
            return [{'b': 'a'}]
        return []
    if [p.name for p in ps] == ['result', 'a', 'b', 'b_']:
        return []                                   # the frozen exception of spec(): b is a constant with precomputed sums
    out = T.get('result') or T.get('c_')
    if out is None or K[out.name] not in ('arr', 'planar'):
        return []
    elig = []
    for x, d, c in (('a', dA, cA), ('b', dB, cB)):
        if d != 3 or c:
            continue
        cands = [n for n in (x, x + '_') if n in T]
        if len(cands) == 1 and K[cands[0]] == K[out.name]:
            elig.append(cands[0])
    hs = [{n: out.name} for n in elig]
    if len(elig) == 2:
        hs.append({elig[1]: elig[0]})
        hs.append({elig[0]: out.name, elig[1]: out.name})
    return hs
