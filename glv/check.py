"""CLI: python3 -m glv.check <property id> [--tier quick|thorough]"""
import sys, os, importlib, argparse, traceback
from . import report


def main(argv=None):
    ap = argparse.ArgumentParser()
    ap.add_argument('pid')
    ap.add_argument('--tier', default=os.environ.get('VERIF_TIER', 'quick'))
    ap.add_argument('--replay', default=None)
    a = ap.parse_args(argv)
    pid = a.pid.upper()
    seed = int(os.environ.get('VERIF_SEED', '0') or 0)
    tier = a.tier if a.tier in ('quick', 'thorough') else 'quick'
    try:
        mod = importlib.import_module('glv.checks.' + pid.lower())
    except ImportError as e:
        print('no check for %s (%s)' % (pid, e))
        return 2
    rep = report.Report(pid, tier, seed, getattr(mod, 'LEVEL', 'proof'))
    try:
        mod.run(rep, tier, seed)
    except Exception as e:
        traceback.print_exc()
        rep.incomplete('engine', 'engine', '', 'analysis aborted: %s: %s' % (type(e).__name__, str(e)[:300]))
    return report.finish(rep, 'python3 -m glv.check %s --tier %s' % (pid, tier))


if __name__ == '__main__':
    sys.exit(main())
