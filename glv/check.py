"""CLI: python3 -m glv.check <property id> [--tier quick|thorough]"""
import sys, os, importlib, argparse, traceback
from . import report


def main(argv=None):
    ap = argparse.ArgumentParser()
    ap.add_argument('pid')
    ap.add_argument('--tier', default=os.environ.get('VERIF_TIER', 'quick'))
    ap.add_argument('--replay', default=None)
    a = ap.parse_args(argv)
    pid = a.pid.upper()
    seed = int(os.environ.get('VERIF_SEED', '0') or 0)
    tier = a.tier if a.tier in ('quick', 'thorough') else 'quick'
    try:
        mod = importlib.import_module('glv.checks.' + pid.lower())
    except ImportError as e:
        print('no check for %s (%s)' % (pid, e))
        return 2
    rep = report.Report(pid, tier, seed, getattr(mod, 'LEVEL', 'proof'))
    replay = None
    if a.replay:
        # a replay file is the record of one refuted obligation (rule, site, detail, witness): show it, re-run the analysis of the
        # current tree in the tier that found it, and say whether that very obligation is still refuted
        import json
        try:
            replay = json.load(open(a.replay))
            o = replay.get('obligation', {})
            print('REPLAY %s [%s] %s @ %s' % (replay.get('property'), o.get('rule'), o.get('id'), o.get('site')))
            print('  recorded: %s' % o.get('detail'))
            if o.get('witness'):
                print('  witness: %s' % o.get('witness'))
            tier = replay.get('tier', tier)
            rep.tier = tier
        except (OSError, ValueError) as e:
            print('cannot read replay file %s: %s' % (a.replay, e))
            return 2
    try:
        mod.run(rep, tier, seed)
    except Exception as e:
        traceback.print_exc()
        rep.incomplete('engine', 'engine', '', 'analysis aborted: %s: %s' % (type(e).__name__, str(e)[:300]))
    if replay is not None:
        oid = replay.get('obligation', {}).get('id')
        now = [o for o in rep.obl if o['id'] == oid]
        st = now[0]['status'] if now else 'absent'
        print('REPLAY RESULT: obligation %s is now %s on the current tree' % (oid, st))
        os.environ['GLV_EVIDENCE'] = os.path.join(os.environ.get('GLV_WORK') or os.path.join(report.ROOT, '.work'), 'replay-evidence')
    return report.finish(rep, 'python3 -m glv.check %s --tier %s' % (pid, tier))


if __name__ == '__main__':
    sys.exit(main())
