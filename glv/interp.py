"""Abstract interpreter over the unity module's LLVM IR (wrapper mode and bounded-shape mode, DESIGN §3.1-3.6).

Shape values (sizes, strides, loop counters, addresses) are concrete ints or integer polynomials over named
symbols; field data are FV values (residue normal form + typestate) that only move through memory, registers
and *contracted* callees (summaries). Nothing is executed: inputs are atoms, results are normal forms.
"""
import re
from . import ir
from .ir import sizeof, field_offset, IRError
from .poly import Poly, FV, C, P, M64, as_poly, ts_of_const


class Incomplete(Exception):
    """the analysis cannot follow this code (never a pass, never a violation)"""


class Sink(Exception):
    """abstract execution reached an abnormal end or an obligation failure"""

    def __init__(s, kind, msg, loc=None, stack=None):
        Exception.__init__(s, '%s: %s' % (kind, msg))
        s.kind = kind
        s.msg = msg
        s.loc = loc
        s.stack = stack or []


class Undef:
    def __repr__(s):
        return 'undef'


UNDEF = Undef()


class Part:
    """j-th of k equal slices of a 64-bit lane value (for 32-bit shuffles of 64-bit lanes)"""
    __slots__ = ('v', 'j', 'k')

    def __init__(s, v, j, k):
        s.v = v
        s.j = j
        s.k = k

    def __repr__(s):
        return 'part%d/%d(%r)' % (s.j, s.k, s.v)


class Pack:
    """a wide lane assembled from k narrower lane values (e.g. two 32-bit indices viewed as one 64-bit lane by a bitcast);
    only taken apart again, never computed with"""
    __slots__ = ('parts',)

    def __init__(s, parts):
        s.parts = list(parts)

    def __repr__(s):
        return 'pack(%r)' % (s.parts,)


class Region:
    __slots__ = ('name', 'kind', 'extent', 'elem', 'alloc', 'freed', 'ro', 'align', 'owner', 'in_extent', 'oid')
    _count = 0

    def __init__(s, name, kind, extent=None, elem='any', alloc=None, ro=False, align=None):
        s.name = name
        s.kind = kind        # 'param' | 'alloca' | 'heap' | 'global' | 'null' | 'opaque'
        s.extent = extent    # bytes or None (unknown)
        s.elem = elem        # 'field' | 'int' | 'any'
        s.alloc = alloc      # 'malloc' | 'new[]' | 'new' | None
        s.freed = False
        s.ro = ro
        s.align = align
        s.owner = None
        Region._count += 1
        s.oid = Region._count    # position in the virtual address layout (creation order)
        s.in_extent = None   # bytes of a caller buffer that are declared input; beyond it the buffer is output-only

    def __repr__(s):
        return '<%s %s>' % (s.kind, s.name)


class Ptr:
    __slots__ = ('reg', 'off')

    def __init__(s, reg, off=0):
        s.reg = reg
        s.off = off

    def __repr__(s):
        return '&%s+%s' % (s.reg.name, s.off)

    def add(s, d):
        if isinstance(d, int) and isinstance(s.off, int):
            return Ptr(s.reg, s.off + d)
        o = as_poly(s.off) + d
        if o.isconst():
            o = o.cval()
        return Ptr(s.reg, o)


NULLREG = Region('null', 'null', 0)
NULL = Ptr(NULLREG, 0)


class FnPtr:
    def __init__(s, name):
        s.name = name

    def __repr__(s):
        return 'fn:' + s.name


def offkey(o):
    return o if isinstance(o, int) else (o.cval() if o.isconst() else o)


def mask(w):
    return (1 << w) - 1


def to_signed(x, w):
    x &= mask(w)
    return x - (1 << w) if x >> (w - 1) else x


class Interp:
    def __init__(s, mod, summaries=None, opts=None):
        s.mod = mod
        s.summ = summaries or {}
        s.opts = opts or {}
        s.mem = {}              # (Region, offkey) -> (value, size)
        s.reads = []            # (Region, off, size)
        s.writes = []
        s.stack = []            # [(fname, instr)]
        s.nreg = 0
        s.steps = 0
        s.max_steps = s.opts.get('max_steps', 50_000_000)
        s.globals = {}          # name -> Region
        s.rw = [] if s.opts.get('trace_rw') else None     # ordered trace of parameter-memory accesses (read-before-write discipline)
        s.journal = None        # undo log of memory writes inside a candidate raw helper (rawhelper.py)
        s.global_writes = set() # global regions stored to (function-local statics, file-scope state)
        s.log_access = s.opts.get('log_access', True)
        s.assumptions = set()
        s.events = []           # notes from summaries (contract checks etc.)
        s.heap = []
        s.depth = 0
        s.loopwatch = {}
        s.on_call = None
        # OpenMP (outlined -fopenmp IR): one abstract thread owns every chunk; per-iteration footprints are recorded
        s.par = None            # id of the active parallel region instance, or None
        s.par_seq = 0
        s.cur_iter = None
        s.par_log = []          # (kind 'r'|'w', Region, off, size, iteration id)
        s.par_regions = []      # finished regions: dict(site, fn, iterations, log)

    # ---------------------------------------------------------------- regions / memory
    def new_region(s, name, kind, **kw):
        s.nreg += 1
        r = Region('%s#%d' % (name, s.nreg) if kind in ('alloca', 'heap') else name, kind, **kw)
        if s.par is not None:
            r.owner = ('par', s.par)     # created inside a parallel region: private to the executing thread
        return r

    def here(s):
        if s.stack:
            fn, ins = s.stack[-1]
            return s.mod.loc(ins.dbg) if ins is not None else (None, None)
        return (None, None)

    def where(s):
        out = []
        for fn, ins in reversed(s.stack):
            f, l = s.mod.loc(ins.dbg) if ins is not None else (None, None)
            out.append('%s (%s:%s)' % (s.mod.dem.get(fn, fn).split('(')[0], f, l))
        return out

    def sink(s, kind, msg):
        raise Sink(kind, msg, s.here(), s.where())

    def check_access(s, ptr, size, what):
        r = ptr.reg
        if r.kind == 'null':
            s.sink('null', '%s through a null pointer' % what)
        if r.freed:
            s.sink('uaf', '%s of freed region %s' % (what, r.name))
        if r.extent is not None:
            o = ptr.off
            if isinstance(o, int):
                if o < 0 or o + size > r.extent:
                    s.sink('oob', '%s of %d bytes at %s+%d, extent %d bytes' % (what, size, r.name, o, r.extent))
            else:
                raise Incomplete('symbolic offset %s into bounded region %s' % (o, r.name))
        if what == 'write' and r.ro:
            s.sink('rowrite', 'write to read-only region %s' % r.name)

    def global_region(s, name):
        r = s.globals.get(name)
        if r is None:
            g = s.mod.glob(name)
            r = Region(name, 'global', sizeof(s.mod, g.ty), ro=g.const)
            s.globals[name] = r
            if g.init is not None:
                s._init_cells(r, 0, g.ty, g.init)
        return r

    def _init_cells(s, reg, off, ty, v):
        k = ty[0]
        if v[0] == 'zero':
            s._zero_cells(reg, off, ty)
            return
        if v[0] == 'undef':
            return
        if k in ('i', 'p', 'f'):
            s.mem[(reg, off)] = (s.const_val(v, ty), sizeof(s.mod, ty))
            return
        if k == 'a' or k == 'v':
            if v[0] == 'str':
                # c"..." initialiser of a byte array: printable characters stand for themselves, \XX is a byte in hex
                txt = v[1]
                if txt.startswith('c"'):
                    txt = txt[2:]
                if txt.endswith('"'):
                    txt = txt[:-1]
                i = 0
                k = 0
                while i < len(txt) and k < ty[1]:
                    if txt[i] == '\\' and txt[i + 1:i + 2] == '\\':
                        b = 0x5C
                        i += 2
                    elif txt[i] == '\\':
                        b = int(txt[i + 1:i + 3], 16)
                        i += 3
                    else:
                        b = ord(txt[i])
                        i += 1
                    s.mem[(reg, off + k)] = (b, 1)
                    k += 1
                return
            es = sizeof(s.mod, ty[2])
            for i, e in enumerate(v[1]):
                s._init_cells(reg, off + i * es, ty[2], e)
            return
        if k in ('s', 'lit'):
            for i, e in enumerate(v[1]):
                o, ft = field_offset(s.mod, ty, i)
                s._init_cells(reg, off + o, ft, e)
            return
        raise Incomplete('global initialiser of type %r' % (ty,))

    def _zero_cells(s, reg, off, ty):
        k = ty[0]
        if k == 'i':
            s.mem[(reg, off)] = (0, sizeof(s.mod, ty))
        elif k == 'p':
            s.mem[(reg, off)] = (NULL, 8)
        elif k == 'f':
            s.mem[(reg, off)] = (('f', 0.0), sizeof(s.mod, ty))
        elif k in ('a', 'v'):
            es = sizeof(s.mod, ty[2])
            for i in range(ty[1]):
                s._zero_cells(reg, off + i * es, ty[2])
        elif k in ('s', 'lit'):
            fs = s.mod.struct_fields(ty[1]) if k == 's' else ty
            for i in range(len(fs[1])):
                o, ft = field_offset(s.mod, ty, i)
                s._zero_cells(reg, off + o, ft)

    def atom_for(s, reg, off, size):
        """value of a never-written cell of an input region"""
        if size != 8:
            raise Incomplete('read of %d-byte cell from input region %s' % (size, reg.name))
        idx = off // 8 if isinstance(off, int) else off.lin_div(8)
        if idx is None or (isinstance(off, int) and off % 8):
            raise Incomplete('misaligned input read %s+%s' % (reg.name, off))
        nm = '%s[%s]' % (reg.name, idx)
        if reg.elem == 'int':
            return Poly.var(nm)
        f = s.opts.get('atom_ts')
        return FV.atom(nm, f(reg, idx) if f else 'u64')

    def load_cell(s, ptr, size):
        s.check_access(ptr, size, 'read')
        k = (ptr.reg, offkey(ptr.off))
        c = s.mem.get(k)
        if s.log_access and ptr.reg.kind in ('param', 'heap'):
            s.reads.append((ptr.reg, k[1], size))
            if s.rw is not None:
                s.rw.append(('r', ptr.reg.name, k[1]))
        if s.par is not None and ptr.reg.kind != 'global' and ptr.reg.owner != ('par', s.par):
            s.par_log.append(('r', ptr.reg, k[1], size, s.cur_iter))
        if c is not None:
            v, sz = c
            if sz == size:
                return v
            if isinstance(v, int) and size < sz:
                return v & mask(8 * size)
            raise Incomplete('read of %d bytes over a %d-byte cell at %s' % (size, sz, ptr))
        r = ptr.reg
        if r.kind == 'param':
            if r.in_extent is not None and isinstance(k[1], int) and k[1] >= r.in_extent:
                s.sink('uninit', 'read of %d bytes at %s+%d before any write: outside the declared input extent (%d bytes) of an in/out buffer' % (
                    size, r.name, k[1], r.in_extent))
            s._check_alias_read(r, k[1])
            return s.atom_for(r, k[1], size)
        if r.kind == 'global':
            if not s.mod.has_glob(r.name):
                raise Incomplete('read of external global ' + r.name)
            s.sink('uninit', 'read of uninitialised global cell %s+%s' % (r.name, ptr.off))
        if r.kind in ('alloca', 'heap'):
            # sub-cell read of a concrete int (e.g. bool in a wider slot) is not expected; report
            s.sink('uninit', 'read of uninitialised %s cell %s+%s (%d bytes)' % (r.kind, r.name, ptr.off, size))
        raise Incomplete('read from %s' % r)

    def _check_alias_read(s, r, off):
        """an input cell is read after writes to the same region: sound only if no earlier write may overlap it"""
        ws = s._written.get(r) if hasattr(s, '_written') else None
        if not ws:
            return
        for w in ws:
            if isinstance(w, int) and isinstance(off, int):
                continue      # distinct concrete cells (same cell would have been found in mem)
            d = as_poly(w) - as_poly(off)
            if d.isconst() and d.cval() != 0:
                continue
            raise Incomplete('read of %s+%s may alias an earlier write at +%s' % (r.name, off, w))

    def store_cell(s, ptr, v, size):
        s.check_access(ptr, size, 'write')
        k = (ptr.reg, offkey(ptr.off))
        if s.log_access and ptr.reg.kind in ('param', 'heap'):
            s.writes.append((ptr.reg, k[1], size))
            if s.rw is not None:
                s.rw.append(('w', ptr.reg.name, k[1]))
        if s.par is not None and ptr.reg.owner != ('par', s.par):
            s.par_log.append(('w', ptr.reg, k[1], size, s.cur_iter))
        if s.journal is not None:
            s.journal.append((k, s.mem.get(k)))
        if ptr.reg.kind == 'global':
            s.global_writes.add(ptr.reg)
        if ptr.reg.kind == 'param':
            if not hasattr(s, '_written'):
                s._written = {}
            ws = s._written.setdefault(ptr.reg, set())
            if not isinstance(k[1], int) and k[1] not in ws:
                # a symbolic write may overlap cells already held for this region
                for (r2, o2) in list(s.mem):
                    if r2 is ptr.reg and o2 != k[1]:
                        d = as_poly(o2) - as_poly(k[1])
                        if not (d.isconst() and d.cval() != 0):
                            s.assumptions.add('distinct-output-cells:%s' % ptr.reg.name)
            ws.add(k[1])
        s.mem[k] = (v, size)

    def load(s, ptr, ty):
        k = ty[0]
        if k in ('i', 'p', 'f'):
            return s.load_cell(ptr, sizeof(s.mod, ty))
        if k == 'v':
            es = sizeof(s.mod, ty[2])
            if ty[2] == ('i', 1):
                raise Incomplete('load of i1 vector')
            return [s.load_cell(ptr.add(i * es), es) for i in range(ty[1])]
        if k == 'a':
            es = sizeof(s.mod, ty[2])
            return [s.load(ptr.add(i * es), ty[2]) for i in range(ty[1])]
        if k in ('s', 'lit'):
            fs = s.mod.struct_fields(ty[1]) if k == 's' else ty
            out = []
            for i in range(len(fs[1])):
                o, ft = field_offset(s.mod, ty, i)
                out.append(s.load(ptr.add(o), ft))
            return out
        raise Incomplete('load of type %r' % (ty,))

    def store(s, ptr, v, ty):
        k = ty[0]
        if k in ('i', 'p', 'f'):
            s.store_cell(ptr, v, sizeof(s.mod, ty))
            return
        if k == 'v':
            es = sizeof(s.mod, ty[2])
            if isinstance(v, Undef):
                v = [UNDEF] * ty[1]
            for i, x in enumerate(v):
                s.store_cell(ptr.add(i * es), x, es)
            return
        if k == 'a':
            es = sizeof(s.mod, ty[2])
            if isinstance(v, Undef):
                return
            for i, x in enumerate(v):
                s.store(ptr.add(i * es), x, ty[2])
            return
        if k in ('s', 'lit'):
            if isinstance(v, Undef):
                return
            fs = s.mod.struct_fields(ty[1]) if k == 's' else ty
            for i in range(len(fs[1])):
                o, ft = field_offset(s.mod, ty, i)
                s.store(ptr.add(o), v[i], ft)
            return
        raise Incomplete('store of type %r' % (ty,))

    def cells_in(s, reg, lo, hi):
        """existing cells of a region with concrete offsets in [lo,hi)"""
        # regions are small or accessed by exact key; fall back to scan when needed
        out = []
        for (r, o), (v, sz) in s.mem.items():
            if r is reg and isinstance(o, int) and lo <= o < hi:
                out.append((o, v, sz))
        return out

    def memcpy(s, dst, src, n, move=False):
        if isinstance(n, Poly):
            if n.isconst():
                n = n.cval()
            else:
                raise Incomplete('memcpy with symbolic length %s' % n)
        if n == 0:
            return
        if dst.reg.kind == 'null' or src.reg.kind == 'null':
            s.sink('null', 'memcpy through a null pointer')
        if n % 8 == 0 and s._elemwise(dst, src):
            vals = [s.load_cell(src.add(8 * i), 8) for i in range(n // 8)]
            for i, v in enumerate(vals):
                s.store_cell(dst.add(8 * i), v, 8)
            return
        # generic: copy the cells present in the source range (allocas / globals with mixed sizes)
        if not (isinstance(src.off, int) and isinstance(dst.off, int)):
            raise Incomplete('memcpy with symbolic addresses and mixed cells')
        s.check_access(src, n, 'read')
        s.check_access(dst, n, 'write')
        if src.reg.kind == 'global':
            s.global_region(src.reg.name)
        cells = s.cells_in(src.reg, src.off, src.off + n)
        for o, v, sz in s.cells_in(dst.reg, dst.off, dst.off + n):
            del s.mem[(dst.reg, o)]
        for o, v, sz in cells:
            if o + sz > src.off + n:
                raise Incomplete('memcpy splits a cell')
            s.mem[(dst.reg, dst.off + (o - src.off))] = (v, sz)

    def _elemwise(s, dst, src):
        ok = lambda r: r.elem in ('field', 'int') or r.kind in ('param', 'heap')
        if ok(dst.reg) or ok(src.reg):
            return True
        # alloca <-> alloca of 8-byte cells
        if isinstance(src.off, int):
            c = s.mem.get((src.reg, src.off))
            return c is not None and c[1] == 8
        return True

    def memset(s, dst, val, n):
        if isinstance(n, Poly):
            if n.isconst():
                n = n.cval()
            else:
                raise Incomplete('memset with symbolic length %s' % n)
        if n == 0:
            return
        if not isinstance(val, int):
            raise Incomplete('memset with symbolic value')
        val &= 0xFF
        if n % 8 == 0:
            w = int.from_bytes(bytes([val]) * 8, 'little')
            for i in range(n // 8):
                s.store_cell(dst.add(8 * i), w, 8)
            return
        raise Incomplete('memset of %d bytes' % n)

    # ---------------------------------------------------------------- operands
    def const_val(s, v, ty):
        t = v[0]
        if t == 'i':
            if ty[0] == 'i':
                return v[1] & mask(ty[1])
            return v[1]
        if t == 'null':
            return NULL
        if t == 'undef':
            return UNDEF
        if t == 'g':
            return s.gaddr(v[1])
        if t == 'fl':
            x = v[1]
            if isinstance(x, str):
                import struct
                x = struct.unpack('>d', bytes.fromhex(x[2:].rjust(16, '0')))[0]
            return ('f', x)
        if t == 'zero':
            return s.zero_val(v[1])
        if t == 'agg':
            if ty[0] in ('v', 'a'):
                return [s.const_val(e, ty[2]) for e in v[1]]
            fs = s.mod.struct_fields(ty[1]) if ty[0] == 's' else ty
            return [s.const_val(e, ft) for e, ft in zip(v[1], fs[1])]
        if t == 'cgep':
            base = s.const_val(v[2], ('p', v[1]))
            return s.gep(v[1], base, [s.const_val(i, ('i', 64)) for i in v[3]])
        if t == 'ccast':
            x = s.const_val(v[3], v[2])
            return s.cast(v[1], x, v[2], v[4])
        raise Incomplete('constant %r' % (v,))

    def zero_val(s, ty):
        k = ty[0]
        if k == 'i':
            return 0
        if k == 'p':
            return NULL
        if k == 'f':
            return ('f', 0.0)
        if k in ('v', 'a'):
            return [s.zero_val(ty[2]) for _ in range(ty[1])]
        if k in ('s', 'lit'):
            fs = s.mod.struct_fields(ty[1]) if k == 's' else ty
            return [s.zero_val(f) for f in fs[1]]
        raise Incomplete('zero of %r' % (ty,))

    def gaddr(s, name):
        if name[1:] in s.mod.funcs or name[1:] in s.mod.decls or name[1:].strip('"') in s.mod.funcs:
            return FnPtr(name)
        if s.mod.has_glob(name):
            return Ptr(s.global_region(name), 0)
        raise Incomplete('unknown global ' + name)

    def val(s, env, v, ty):
        t = v[0]
        if t == 'r':
            try:
                return env[v[1]]
            except KeyError:
                raise Incomplete('use of undefined register ' + v[1])
        return s.const_val(v, ty)

    # ---------------------------------------------------------------- instruction helpers
    def gep(s, bt, base, idx):
        if not isinstance(base, Ptr):
            raise Incomplete('gep on %r' % (base,))
        off = base.off
        cur = bt
        for j, iv in enumerate(idx):
            if j == 0:
                d = iv * sizeof(s.mod, cur) if isinstance(iv, int) else as_poly(iv) * sizeof(s.mod, cur)
            else:
                k = cur[0]
                if k in ('s', 'lit'):
                    if not isinstance(iv, int):
                        raise Incomplete('symbolic struct index')
                    d, cur = field_offset(s.mod, cur, iv)
                elif k in ('a', 'v'):
                    cur = cur[2]
                    d = iv * sizeof(s.mod, cur) if isinstance(iv, int) else as_poly(iv) * sizeof(s.mod, cur)
                else:
                    raise Incomplete('gep into %r' % (cur,))
            if isinstance(d, int) and d >= (1 << 63) and isinstance(iv, int):
                d = to_signed(iv, 64) * (d // iv if iv else 0) if False else d
            off = off + d if isinstance(off, int) and isinstance(d, int) else as_poly(off) + d
        if isinstance(off, Poly) and off.isconst():
            off = off.cval()
        if isinstance(off, int) and off >= (1 << 62):
            off = to_signed(off, 64)
        return Ptr(base.reg, off)

    def cast(s, op, x, st, dt):
        if op == 'bitcast':
            if st[0] == 'v' and dt[0] == 'v':
                if isinstance(x, Undef):
                    return x
                if st[1] == dt[1]:
                    return x
                return s.vec_recast(x, st, dt)
            if st[0] == 'v' and dt[0] == 'i':
                # <N x i1> -> iN
                if st[2] == ('i', 1):
                    if all(isinstance(b, int) for b in x):
                        return sum((b & 1) << i for i, b in enumerate(x))
                    return ('bits', list(x))
                raise Incomplete('bitcast vector to int')
            if st[0] == 'i' and dt[0] == 'v':
                if dt[2] == ('i', 1):
                    if isinstance(x, int):
                        return [(x >> i) & 1 for i in range(dt[1])]
                    if isinstance(x, tuple) and x[0] == 'bits':
                        return list(x[1])
                raise Incomplete('bitcast int to vector')
            return x
        if op in ('zext', 'sext', 'trunc'):
            if isinstance(x, list):
                return [s.cast(op, e, st[2], dt[2]) for e in x]
            if isinstance(x, int):
                ws, wd = st[1], dt[1]
                x &= mask(ws)
                if op == 'sext':
                    x = to_signed(x, ws)
                return x & mask(wd)
            if isinstance(x, Poly):
                if op == 'trunc':
                    h = s.opts.get('symbolic_trunc')
                    if h:
                        return h(s, x, st[1], dt[1])
                    raise Incomplete('trunc of symbolic value')
                s.assumptions.add('shape arithmetic does not overflow')
                return x
            if isinstance(x, FV) and op != 'trunc' and st[1] == 64:
                return x
            if isinstance(x, Undef):
                return x
            raise Incomplete('%s of %r' % (op, x))
        if op == 'ptrtoint':
            return ('p2i', x) if isinstance(x, Ptr) else x
        if op == 'inttoptr':
            if isinstance(x, tuple) and x[0] == 'p2i':
                return x[1]
            if x == 0:
                return NULL
            raise Incomplete('inttoptr')
        if op in ('uitofp', 'sitofp'):
            if isinstance(x, int):
                return ('f', float(to_signed(x, st[1]) if op == 'sitofp' else x))
            raise Incomplete('int-to-float of symbolic value')
        if op in ('fptoui', 'fptosi'):
            if isinstance(x, tuple) and x[0] == 'f':
                return int(x[1]) & mask(dt[1])
            raise Incomplete('float-to-int')
        if op in ('fpext', 'fptrunc'):
            return x
        raise Incomplete('cast ' + op)

    def vec_recast(s, x, st, dt):
        """lane-preserving reinterpretation between <N x i64> and <kN x i32/float> views (shuffles on halves)"""
        ns, nd = st[1], dt[1]
        if nd > ns and nd % ns == 0:
            k = nd // ns
            out = []
            for v in x:
                if isinstance(v, int):
                    w = ir.bits(s.mod, st[2]) // k
                    out.extend((v >> (w * j)) & mask(w) for j in range(k))
                elif isinstance(v, Undef):
                    out.extend([UNDEF] * k)
                elif isinstance(v, Pack) and len(v.parts) == k:
                    out.extend(v.parts)
                else:
                    out.extend(Part(v, j, k) for j in range(k))
            return out
        if ns > nd and ns % nd == 0:
            k = ns // nd
            out = []
            for i in range(nd):
                ps = x[i * k:(i + 1) * k]
                if all(isinstance(q, Part) for q in ps) and all(q.k == k and q.j == j and q.v is ps[0].v for j, q in enumerate(ps)):
                    out.append(ps[0].v)
                elif all(isinstance(q, int) for q in ps):
                    w = ir.bits(s.mod, st[2])
                    out.append(sum(q << (w * j) for j, q in enumerate(ps)))
                elif all(isinstance(q, Undef) for q in ps):
                    out.append(UNDEF)
                elif all(isinstance(q, (int, Poly)) for q in ps):
                    out.append(Pack(ps))
                else:
                    raise Incomplete('vector lanes recombined from different sources (%r)' % (ps,))
            return out
        raise Incomplete('vector bitcast %s -> %s' % (ir.tystr(st), ir.tystr(dt)))

    def binop(s, op, a, b, ty):
        if isinstance(a, list) or isinstance(b, list):
            n = ty[1]
            if not isinstance(a, list):
                a = [a] * n
            if not isinstance(b, list):
                b = [b] * n
            return [s.binop(op, x, y, ty[2]) for x, y in zip(a, b)]
        if ty[0] == 'f':
            if isinstance(a, tuple) and isinstance(b, tuple):
                x, y = a[1], b[1]
                return ('f', {'fadd': x + y, 'fsub': x - y, 'fmul': x * y, 'fdiv': x / y if y else float('inf')}[op])
            raise Incomplete('float op')
        w = ty[1]
        if op in ('add', 'sub') and isinstance(a, tuple) and a and a[0] == 'p2i' and isinstance(a[1], Ptr) and isinstance(b, (int, Poly)):
            # address + byte count (overlap tests of the form (uintptr_t)p + n <= (uintptr_t)q)
            return ('p2i', a[1].add(b if op == 'add' else (-b if isinstance(b, int) else -as_poly(b))))
        if op == 'add' and isinstance(b, tuple) and b and b[0] == 'p2i' and isinstance(b[1], Ptr) and isinstance(a, (int, Poly)):
            return ('p2i', b[1].add(a))
        if op == 'sub' and isinstance(a, tuple) and isinstance(b, tuple) and a[0] == 'p2i' and b[0] == 'p2i' \
                and isinstance(a[1], Ptr) and isinstance(b[1], Ptr) and a[1].reg is not b[1].reg:
            # distance between two distinct objects in the virtual layout (objects are 2^48 bytes apart, in creation order)
            k = (a[1].reg.oid - b[1].reg.oid) * (-1 if s.opts.get('layout_reverse') else 1)
            d = as_poly(a[1].off) - as_poly(b[1].off) + (k << 48)
            return (d.cval() & mask(w)) if d.isconst() else d
        if op == 'sub' and isinstance(a, tuple) and isinstance(b, tuple) and a[0] == 'p2i' and b[0] == 'p2i' \
                and isinstance(a[1], Ptr) and isinstance(b[1], Ptr) and a[1].reg is b[1].reg:
            # difference of two addresses inside one object (std::vector size, end - begin)
            d = as_poly(a[1].off) - as_poly(b[1].off)
            return (d.cval() & mask(w)) if d.isconst() else d
        if isinstance(a, int) and isinstance(b, int):
            m = mask(w)
            if op == 'add':
                return (a + b) & m
            if op == 'sub':
                return (a - b) & m
            if op == 'mul':
                return (a * b) & m
            if op in ('udiv', 'urem'):
                if b == 0:
                    s.sink('div0', 'division by zero')
                return a // b if op == 'udiv' else a % b
            if op in ('sdiv', 'srem'):
                x, y = to_signed(a, w), to_signed(b, w)
                if y == 0:
                    s.sink('div0', 'division by zero')
                q = abs(x) // abs(y)
                if (x < 0) != (y < 0):
                    q = -q
                return (q if op == 'sdiv' else x - q * y) & m
            if op in ('shl', 'lshr', 'ashr'):
                if b >= w:
                    s.sink('shift', 'shift of a %d-bit value by %d' % (w, b))
                if op == 'shl':
                    return (a << b) & m
                if op == 'lshr':
                    return a >> b
                return (to_signed(a, w) >> b) & m
            if op == 'and':
                return a & b
            if op == 'or':
                return a | b
            if op == 'xor':
                return a ^ b
        if isinstance(a, (int, Poly)) and isinstance(b, (int, Poly)):
            r = None
            if op == 'add':
                r = as_poly(a) + b
            elif op == 'sub':
                r = as_poly(a) - b
            elif op == 'mul':
                r = as_poly(a) * b
            elif op == 'shl' and isinstance(b, int):
                r = as_poly(a) * (1 << b)
            if r is not None:
                if w <= 32:
                    # arithmetic in a narrow type on shape-derived values: exact only while the result fits
                    fits = s.opts.get('symbolic_fits')
                    if fits is not None and fits(r, w) is False:
                        raise Incomplete('trunc of symbolic value (%d-bit arithmetic on a shape value may overflow)' % w)
                return r
            hook = s.opts.get('symbolic_binop')
            if hook:
                r = hook(s, op, a, b, ty)
                if r is not None:
                    return r
            raise Incomplete('symbolic integer %s: %s, %s' % (op, a, b))
        # lane masking of field values: and with all-ones / zero
        if op == 'and':
            for x, y in ((a, b), (b, a)):
                if isinstance(y, int) and isinstance(x, (FV, Undef)):
                    if y == mask(w):
                        return x
                    if y == 0:
                        return 0
        if isinstance(a, Undef) or isinstance(b, Undef):
            return UNDEF
        raise Incomplete('raw %s on field data outside a contracted kernel (%r, %r)' % (op, a, b))

    def icmp(s, pred, a, b, ty):
        if isinstance(a, list) or isinstance(b, list):
            n = ty[1]
            if not isinstance(a, list):
                a = [a] * n
            if not isinstance(b, list):
                b = [b] * n
            return [s.icmp(pred, x, y, ty[2]) for x, y in zip(a, b)]
        if isinstance(a, tuple) and a and a[0] == 'p2i' and isinstance(b, tuple) and b and b[0] == 'p2i':
            a, b = a[1], b[1]
        if isinstance(a, Ptr) or isinstance(b, Ptr):
            if not (isinstance(a, Ptr) and isinstance(b, Ptr)):
                raise Incomplete('pointer compared with non-pointer')
            if a.reg is b.reg:
                d = as_poly(a.off) - as_poly(b.off)
                if not d.isconst():
                    raise Incomplete('pointer comparison with symbolic offsets')
                d = d.cval()
                return int({'eq': d == 0, 'ne': d != 0, 'ult': d < 0, 'ule': d <= 0, 'ugt': d > 0, 'uge': d >= 0}[pred])
            if pred in ('eq', 'ne'):
                ra, rb = a.reg, b.reg
                if ra.kind == 'param' and rb.kind == 'param' and not s.opts.get('params_distinct', True):
                    raise Incomplete('comparison of possibly aliasing parameters')
                return int(pred == 'ne')
            # distinct objects do not overlap; their relative order is fixed by a virtual layout (creation order, or the
            # reverse when the caller asks for it: callers that care explore both)
            lt = (a.reg.oid < b.reg.oid) != bool(s.opts.get('layout_reverse'))
            return int({'ult': lt, 'ule': lt, 'ugt': not lt, 'uge': not lt}[pred])
        if isinstance(a, int) and isinstance(b, int):
            w = ty[1] if ty[0] == 'i' else 64
            if pred[0] == 's':
                a, b = to_signed(a, w), to_signed(b, w)
            return int({'eq': a == b, 'ne': a != b, 'ult': a < b, 'ule': a <= b, 'ugt': a > b, 'uge': a >= b,
                        'slt': a < b, 'sle': a <= b, 'sgt': a > b, 'sge': a >= b}[pred])
        if isinstance(a, (int, Poly)) and isinstance(b, (int, Poly)):
            d = as_poly(a) - b
            if d.isconst():
                return s.icmp(pred, d.cval() & M64 - 1 if False else d.cval(), 0, ('i', 128)) if pred[0] != 'u' else \
                    int({'eq': d.cval() == 0, 'ne': d.cval() != 0, 'ult': d.cval() < 0, 'ule': d.cval() <= 0,
                         'ugt': d.cval() > 0, 'uge': d.cval() >= 0}[pred])
            hook = s.opts.get('decide')
            if hook:
                s.cmp_width = ty[1] if ty[0] == 'i' else 64     # for hooks that model signed machine integers
                r = hook(pred, a, b)
                if r is not None:
                    return int(r)
            raise Incomplete('comparison of symbolic integers: %s %s %s' % (a, pred, b))
        if isinstance(a, FV) or isinstance(b, FV):
            raise Incomplete('data-dependent comparison on field values (%r %s %r)' % (a, pred, b))
        raise Incomplete('icmp %r %r' % (a, b))

    # ---------------------------------------------------------------- execution
    def call(s, name, args):
        """interpret function `name` (mangled) with abstract arguments"""
        fn = s.mod.fn(name)
        if len(args) != len(fn.params):
            if not fn.vararg:
                raise Incomplete('arity mismatch calling ' + name)
        env = {}
        for (t, pn), a in zip(fn.params, args):
            if pn:
                env[pn] = a
        if s.depth > 200:
            raise Incomplete('recursion too deep')
        s.depth += 1
        s.stack.append((name, None))
        hook = s.opts.get('raw_helper')
        if hook is not None:
            from . import rawhelper
            if rawhelper.candidate(s.mod, name, fn, args):
                # a small helper on Element operands: if it turns out to do raw integer arithmetic on the representations, its
                # partial effects are undone and it is decided on its own (kernel mode, all representations)
                outer = s.journal
                s.journal = []
                nw, nr = len(s.writes), len(s.reads)
                try:
                    return s._run(fn, env)
                except Incomplete as e:
                    if 'outside a contracted kernel' not in str(e) and 'data-dependent comparison on field values' not in str(e):
                        raise
                    for k_, old_ in reversed(s.journal):
                        if old_ is None:
                            s.mem.pop(k_, None)
                        else:
                            s.mem[k_] = old_
                    del s.writes[nw:]
                    del s.reads[nr:]
                    s.journal = None
                    r = hook(s, name, args)
                    if r is NotImplemented:
                        raise
                    return r
                finally:
                    if outer is not None and s.journal:
                        outer.extend(s.journal)
                    s.journal = outer
                    s.stack.pop()
                    s.depth -= 1
        try:
            return s._run(fn, env)
        finally:
            s.stack.pop()
            s.depth -= 1

    def run_fragment(s, name, env, start, prev=None, skip_phis=False, stop_at=None):
        """interpret part of function `name`: from block `start` (entered from `prev`; its phi nodes are taken from env when
        skip_phis) until control is about to enter `stop_at` again -> ('stop', predecessor label, env) or until it
        returns -> ('ret', value, env).  Used for inductive loop arguments (one abstract iteration from a havocked state)."""
        fn = s.mod.fn(name)
        s.stack.append((name, None))
        s.depth += 1
        try:
            return s._run(fn, env, start=start, prev=prev, skip_phis=skip_phis, stop_at=stop_at)
        finally:
            s.stack.pop()
            s.depth -= 1

    def _run(s, fn, env, start=None, prev=None, skip_phis=False, stop_at=None):
        lab = start if start is not None else fn.order[0]
        blocks = fn.blocks
        name = fn.name
        stack = s.stack
        top = len(stack) - 1
        first = True
        while True:
            nxt = None
            blk = blocks[lab]
            if stop_at is not None and lab == stop_at and not first:
                return ('stop', prev, env)
            if s.par is not None and lab.startswith('omp.inner.for.body') and name.startswith('.omp_outlined.'):
                s.iter_no += 1
                s.cur_iter = s.iter_no
            if first and skip_phis:
                pass
            elif blk and blk[0].op == 'phi':
                # phi nodes of a block are evaluated simultaneously on entry
                vals = []
                for ins in blk:
                    if ins.op != 'phi':
                        break
                    for v, l in ins.a:
                        if l == prev:
                            vals.append((ins.dst, s.val(env, v, ins.ty)))
                            break
                    else:
                        raise Incomplete('phi without matching predecessor')
                for d, v in vals:
                    env[d] = v
            for ins in blk:
                s.steps += 1
                stack[top] = (name, ins)
                op = ins.op
                if op == 'load':
                    p = s.val(env, ins.a[0], None)
                    if not isinstance(p, Ptr):
                        raise Incomplete('load through %r' % (p,))
                    env[ins.dst] = s.load(p, ins.ty)
                elif op == 'store':
                    p = s.val(env, ins.a[1], None)
                    if not isinstance(p, Ptr):
                        raise Incomplete('store through %r' % (p,))
                    s.store(p, s.val(env, ins.a[0], ins.ty), ins.ty)
                elif op == 'atomicrmw':
                    # one abstract thread: read, combine, write back, deliver the old value
                    p = s.val(env, ins.a[0], None)
                    if not isinstance(p, Ptr):
                        raise Incomplete('atomicrmw through %r' % (p,))
                    old_ = s.load(p, ins.ty)
                    v_ = s.val(env, ins.a[1], ins.ty)
                    k_ = ins.x
                    if k_ == 'xchg':
                        new_ = v_
                    elif k_ in ('add', 'sub', 'and', 'or', 'xor'):
                        new_ = s.binop(k_, old_, v_, ins.ty)
                    elif k_ in ('max', 'min', 'umax', 'umin') and isinstance(old_, int) and isinstance(v_, int):
                        w_ = ins.ty[1]
                        a_, b_ = (to_signed(old_, w_), to_signed(v_, w_)) if k_ in ('max', 'min') else (old_, v_)
                        new_ = (old_ if (a_ >= b_) == (k_ in ('max', 'umax')) else v_)
                    else:
                        raise Incomplete('atomicrmw %s on %r' % (k_, old_))
                    s.store(p, new_, ins.ty)
                    env[ins.dst] = old_
                elif op == 'cmpxchg':
                    p = s.val(env, ins.a[0], None)
                    if not isinstance(p, Ptr):
                        raise Incomplete('cmpxchg through %r' % (p,))
                    old_ = s.load(p, ins.x)
                    cmp_ = s.val(env, ins.a[1], ins.x)
                    ok_ = s.icmp('eq', old_, cmp_, ins.x)
                    if ok_:
                        s.store(p, s.val(env, ins.a[2], ins.x), ins.x)
                    env[ins.dst] = [old_, int(bool(ok_))]
                elif op == 'fence':
                    pass
                elif op == 'getelementptr':
                    base = s.val(env, ins.a[0], None)
                    idx = [s.val(env, i, ('i', 64)) for i in ins.a[1:]]
                    idx = [to_signed(i, 64) if isinstance(i, int) and i >= (1 << 63) else i for i in idx]
                    env[ins.dst] = s.gep(ins.ty, base, idx)
                elif op == 'alloca':
                    n = ins.a[0]
                    sz = sizeof(s.mod, ins.ty)
                    if n is not None:
                        cnt = s.val(env, n, ('i', 64))
                        if not isinstance(cnt, int):
                            raise Incomplete('VLA with symbolic extent %s' % cnt)
                        sz *= cnt
                    r = s.new_region(ins.dst[1:], 'alloca', extent=sz)
                    if r.owner is None:
                        r.owner = name
                    env[ins.dst] = Ptr(r, 0)
                elif op == 'br':
                    if not ins.a:
                        nxt = ins.x[0]
                    else:
                        c = s.val(env, ins.a[0], ('i', 1))
                        if not isinstance(c, int):
                            if isinstance(c, FV):
                                raise Incomplete('data-dependent branch on a field value')
                            raise Incomplete('branch on symbolic condition %r' % (c,))
                        nxt = ins.x[0] if c & 1 else ins.x[1]
                    break
                elif op == 'call' or op == 'invoke':
                    r = s.do_call(env, ins)
                    if ins.dst:
                        env[ins.dst] = r
                    if op == 'invoke':
                        nxt = ins.x['normal']
                        break
                elif op in ir.BINOPS:
                    env[ins.dst] = s.binop(op, s.val(env, ins.a[0], ins.ty), s.val(env, ins.a[1], ins.ty), ins.ty)
                elif op == 'icmp':
                    env[ins.dst] = s.icmp(ins.x, s.val(env, ins.a[0], ins.ty), s.val(env, ins.a[1], ins.ty), ins.ty)
                elif op in ir.CASTS:
                    env[ins.dst] = s.cast(op, s.val(env, ins.a[0], ins.x), ins.x, ins.ty)
                elif op == 'ret':
                    rv = None if not ins.a else s.val(env, ins.a[0], ins.ty)
                    if start is not None or stop_at is not None:
                        return ('ret', rv, env)
                    return rv
                elif op == 'phi':
                    pass
                elif op == 'select':
                    c = s.val(env, ins.a[0], ins.x)
                    a = s.val(env, ins.a[1], ins.ty)
                    b = s.val(env, ins.a[2], ins.ty)
                    if isinstance(c, list):
                        if not all(isinstance(x, int) for x in c):
                            raise Incomplete('vector select on non-concrete mask')
                        a = a if isinstance(a, list) else [a] * len(c)
                        b = b if isinstance(b, list) else [b] * len(c)
                        env[ins.dst] = [x if m & 1 else y for m, x, y in zip(c, a, b)]
                    elif isinstance(c, int):
                        env[ins.dst] = a if c & 1 else b
                    else:
                        raise Incomplete('select on symbolic condition')
                elif op == 'insertelement':
                    v = s.val(env, ins.a[0], ins.ty)
                    v = [UNDEF] * ins.ty[1] if isinstance(v, Undef) else list(v)
                    i = s.val(env, ins.a[2], ('i', 64))
                    v[i] = s.val(env, ins.a[1], ins.ty[2])
                    env[ins.dst] = v
                elif op == 'extractelement':
                    v = s.val(env, ins.a[0], ins.ty)
                    i = s.val(env, ins.a[1], ('i', 64))
                    if not isinstance(i, int):
                        raise Incomplete('extractelement with symbolic index')
                    env[ins.dst] = UNDEF if isinstance(v, Undef) else v[i]
                elif op == 'shufflevector':
                    a = s.val(env, ins.a[0], ins.ty)
                    b = s.val(env, ins.a[1], ins.ty)
                    n = ins.ty[1]
                    a = [UNDEF] * n if isinstance(a, Undef) else a
                    b = [UNDEF] * n if isinstance(b, Undef) else b
                    ab = list(a) + list(b)
                    env[ins.dst] = [UNDEF if i is None else ab[i] for i in ins.x]
                elif op == 'extractvalue':
                    v = s.val(env, ins.a[0], ins.ty)
                    for i in ins.x:
                        v = v[i]
                    env[ins.dst] = v
                elif op == 'insertvalue':
                    v = s.val(env, ins.a[0], ins.ty)
                    if isinstance(v, Undef):
                        fs = s.mod.struct_fields(ins.ty[1]) if ins.ty[0] == 's' else ins.ty
                        v = [UNDEF] * (len(fs[1]) if ins.ty[0] != 'a' else ins.ty[1])
                    v = list(v)
                    assert len(ins.x) == 1
                    v[ins.x[0]] = s.val(env, ins.a[1], None)
                    env[ins.dst] = v
                elif op == 'switch':
                    c = s.val(env, ins.a[0], ins.ty)
                    if not isinstance(c, int):
                        raise Incomplete('switch on symbolic value')
                    nxt = ins.x[0]
                    for cv, l in ins.x[1]:
                        if cv & mask(ins.ty[1]) == c:
                            nxt = l
                            break
                    break
                elif op == 'unreachable':
                    s.sink('unreachable', 'unreachable executed')
                elif op == 'freeze':
                    env[ins.dst] = s.val(env, ins.a[0], ins.ty)
                else:
                    raise Incomplete('instruction not supported: ' + ins.text.strip()[:120])
                if s.steps > s.max_steps:
                    raise Incomplete('step budget exhausted')
            else:
                raise Incomplete('block without terminator')
            prev, lab = lab, nxt
            first = False

    # ---------------------------------------------------------------- calls
    def do_call(s, env, ins):
        cal = ins.a[0]
        if cal[0] == 'asm':
            h = s.opts.get('asm')
            if h:
                return h(s, env, ins)
            raise Incomplete('inline asm reached outside kernel mode')
        atys = ins.x['atys']
        args = [None if a[0] == 'md' else s.val(env, a, t) for a, t in zip(ins.a[1:], atys)]
        if cal[0] == 'g':
            name = cal[1][1:]
        else:
            f = s.val(env, cal, None)
            if not isinstance(f, FnPtr):
                raise Incomplete('indirect call through %r' % (f,))
            name = f.name[1:]
        return s.call_named(name, args, ins)

    def call_named(s, name, args, ins=None):
        if s.on_call:
            s.on_call(s, name, args, ins)
        h = s.summ.get(name)
        if h is not None:
            return h(s, args, ins)
        if name.startswith('llvm.'):
            return s.intrinsic(name, args, ins)
        h = BUILTINS.get(name)
        if h is not None:
            return h(s, args, ins)
        if name in s.mod.funcs:
            d = s.mod.dem.get(name, name)
            for pat, hh in s.opts.get('summ_re', ()):
                if pat.search(d) or pat.search(name):
                    return hh(s, args, ins)
            return s.call(name, args)
        d = s.mod.dem.get(name, name)
        for pat, hh in s.opts.get('summ_re', ()):
            if pat.search(d) or pat.search(name):
                return hh(s, args, ins)
        raise Incomplete('call of unknown external function %s' % d)

    def intrinsic(s, name, args, ins):
        if name.startswith('llvm.dbg.') or name.startswith('llvm.lifetime.') or name.startswith('llvm.experimental.noalias'):
            return None
        if name.startswith('llvm.memcpy.') or name.startswith('llvm.memmove.'):
            s.memcpy(args[0], args[1], args[2])
            return None
        if name.startswith('llvm.memset.'):
            s.memset(args[0], args[1], args[2])
            return None
        if name == 'llvm.stacksave':
            return Ptr(Region('stack', 'opaque'), 0)
        if name == 'llvm.stackrestore':
            return None
        if name == 'llvm.x86.avx512.vpermi2var.q.512':
            a, idx, b = args
            out = []
            for i in range(8):
                k = idx[i]
                if not isinstance(k, int):
                    raise Incomplete('permute with symbolic index')
                k &= 15
                out.append(a[k] if k < 8 else b[k - 8])
            return out
        m_ = re.match(r'llvm\.x86\.avx(512\.permvar\.di\.(256|512)|2\.permd|2\.permps)$', name)
        if m_:
            # variable permute with an index vector that is a constant: out[i] = a[idx[i] mod n]
            a, idx = args
            if not (isinstance(a, list) and isinstance(idx, list) and len(a) == len(idx)):
                raise Incomplete('variable permute of %r' % (a,))
            out = []
            for i in range(len(a)):
                k = idx[i]
                if not isinstance(k, int):
                    raise Incomplete('permute with symbolic index')
                out.append(a[k % len(a)])
            return out
        if name.startswith('llvm.umul.with.overflow.'):
            a, b = args
            if isinstance(a, int) and isinstance(b, int):
                r = a * b
                return [r & M64 - 1, int(r >= M64)]
            raise Incomplete('umul.with.overflow on symbolic values')
        m_ = re.match(r'llvm\.x86\.avx2\.gather\.(d|q)\.q(\.256)?$', name)
        if m_:
            # (passthru, base, index vector, mask, scale): lane i loads base + sext(index_i)*scale when the mask's top bit is set
            src0, base, idx, msk, scale = args
            if not isinstance(base, Ptr) or not isinstance(scale, int):
                raise Incomplete('gather with a symbolic base / scale')
            iw = 32 if m_.group(1) == 'd' else 64
            out = []
            n = 4 if m_.group(2) else 2
            for i in range(n):
                mk = msk[i] if isinstance(msk, list) else msk
                if not isinstance(mk, int):
                    raise Incomplete('gather with a symbolic mask')
                if not (mk >> 63) & 1:
                    out.append(src0[i] if isinstance(src0, list) else src0)
                    continue
                k = idx[i]
                if isinstance(k, Part):
                    raise Incomplete('gather index is a slice of a symbolic value')
                if isinstance(k, int):
                    k = to_signed(k, iw)
                elif not isinstance(k, Poly):
                    raise Incomplete('gather index %r' % (k,))
                out.append(s.load_cell(base.add(as_poly(k) * scale if not isinstance(k, int) else k * scale), 8))
            return out
        m_ = re.match(r'llvm\.x86\.avx512\.mask\.(gather|scatter)\.qpq\.512$', name)
        if m_:
            # gather:  (passthru, base, <8 x i64> index, <8 x i1> mask, scale) -> lanes;  scatter: (base, mask, index, values, scale),
            # lanes stored from the lowest to the highest (the highest wins on overlap)
            if m_.group(1) == 'gather':
                src0, base, idx, msk, scale = args
                vals = None
            else:
                base, msk, idx, vals, scale = args
                src0 = None
            if not isinstance(base, Ptr) or not isinstance(scale, int):
                raise Incomplete('%s with a symbolic base / scale' % m_.group(1))
            out = []
            for i in range(8):
                mk = msk[i] if isinstance(msk, list) else ((msk >> i) & 1 if isinstance(msk, int) else None)
                if not isinstance(mk, int):
                    raise Incomplete('%s with a symbolic mask' % m_.group(1))
                if not mk & 1:
                    if vals is None:
                        out.append(src0[i] if isinstance(src0, list) else src0)
                    continue
                k = idx[i] if isinstance(idx, list) else idx
                if isinstance(k, int):
                    k = to_signed(k, 64)
                elif not isinstance(k, Poly):
                    raise Incomplete('%s index %r' % (m_.group(1), k))
                pk = base.add(as_poly(k) * scale if not isinstance(k, int) else k * scale)
                if vals is None:
                    out.append(s.load_cell(pk, 8))
                else:
                    s.store_cell(pk, vals[i] if isinstance(vals, list) else vals, 8)
            return out if vals is None else None
        m_ = re.match(r'llvm\.(ctlz|cttz|ctpop|bswap|bitreverse)\.i(\d+)$', name)
        if m_:
            x = args[0]
            w = int(m_.group(2))
            if not isinstance(x, int):
                raise Incomplete('%s of a symbolic value' % m_.group(1))
            x &= (1 << w) - 1
            k = m_.group(1)
            if k == 'ctpop':
                return bin(x).count('1')
            if k == 'ctlz':
                return w - x.bit_length()
            if k == 'cttz':
                return w if x == 0 else (x & -x).bit_length() - 1
            if k == 'bswap':
                return int.from_bytes(x.to_bytes(w // 8, 'little'), 'big')
            return int(format(x, '0%db' % w)[::-1], 2)
        m_ = re.match(r'llvm\.u(add|sub)\.with\.overflow\.i(\d+)$', name)
        if m_ and isinstance(args[0], int) and isinstance(args[1], int):
            w = int(m_.group(2))
            r = args[0] + args[1] if m_.group(1) == 'add' else args[0] - args[1]
            return [r & ((1 << w) - 1), int(r < 0 or r >> w != 0)]
        if name == 'llvm.trap':
            s.sink('trap', 'llvm.trap')
        if name.startswith('llvm.is.constant'):
            return 0
        if name.startswith('llvm.assume') or name.startswith('llvm.prefetch'):
            return None
        if name.startswith('llvm.umin.') or name.startswith('llvm.umax.'):
            a, b = args
            if isinstance(a, int) and isinstance(b, int):
                return min(a, b) if 'umin' in name else max(a, b)
        if name.startswith('llvm.floor.') or name.startswith('llvm.ceil.') or name.startswith('llvm.trunc.'):
            import math
            x = args[0]
            if isinstance(x, tuple) and x[0] == 'f':
                return ('f', float({'floor': math.floor, 'ceil': math.ceil, 'trunc': math.trunc}[name.split('.')[1]](x[1])))
        raise Incomplete('intrinsic %s not supported in this mode' % name)


# ---- libc / C++ runtime models shared by every mode
def _malloc(kind):
    def f(s, args, ins):
        n = args[0]
        if not isinstance(n, int):
            raise Incomplete('allocation with symbolic size %s' % n)
        r = s.new_region(kind, 'heap', extent=n, alloc=kind)
        if r.owner is None:
            r.owner = s.stack[-1][0] if s.stack else None
        r.align = 16
        s.heap.append(r)
        return Ptr(r, 0)
    return f


def _free(kind):
    want = {'free': 'malloc', 'delete[]': 'new[]', 'delete': 'new'}[kind]

    def f(s, args, ins):
        p = args[0]
        if not isinstance(p, Ptr):
            raise Incomplete('release of %r' % (p,))
        if p.reg.kind == 'null':
            return None
        if p.reg.kind != 'heap':
            s.sink('dealloc', '%s of non-heap region %s' % (kind, p.reg.name))
        if p.off != 0:
            s.sink('dealloc', '%s of interior pointer' % kind)
        if p.reg.freed:
            s.sink('doublefree', 'double release of %s' % p.reg.name)
        if p.reg.alloc != want:
            s.sink('dealloc', 'memory obtained with %s released with %s' % (p.reg.alloc, kind))
        p.reg.freed = True
        return None
    return f


def _assert_fail(s, args, ins):
    msg = ''
    try:
        p = args[0]
        g = s.mod.glob(p.reg.name)
        msg = g.init[1] if g.init and g.init[0] == 'str' else ''
    except Exception:
        pass
    s.sink('assert', 'assertion failed %s' % msg)


def _exit(s, args, ins):
    s.sink('exit', 'exit(%s) called' % (to_signed(args[0], 32) if isinstance(args[0], int) else args[0]))


BUILTINS = {
    'malloc': _malloc('malloc'), '_Znam': _malloc('new[]'), '_Znwm': _malloc('new'),
    'free': _free('free'), '_ZdaPv': _free('delete[]'), '_ZdlPv': _free('delete'),
    '__assert_fail': _assert_fail, 'exit': _exit,
    'abort': lambda s, a, i: s.sink('abort', 'abort() called'),
    '__cxa_throw': lambda s, a, i: s.sink('throw', 'C++ exception thrown'),
    '_ZSt28__throw_bad_array_new_lengthv': lambda s, a, i: s.sink('throw', 'bad_array_new_length'),
    '_ZSt17__throw_bad_allocv': lambda s, a, i: s.sink('throw', 'bad_alloc'),
    '__cxa_allocate_exception': lambda s, a, i: Ptr(s.new_region('exc', 'heap', extent=a[0] if isinstance(a[0], int) else 64, alloc='exc'), 0),
    '__cxa_atexit': lambda s, a, i: 0,
    # function-local statics: the guard's first byte says "initialised" (Itanium ABI); initialisation is serialised by the runtime
    '__cxa_guard_acquire': lambda s, a, i: 1 if s.load_cell(a[0], 1) == 0 else 0,
    '__cxa_guard_release': lambda s, a, i: s.store_cell(a[0], 1, 1),
    '__cxa_guard_abort': lambda s, a, i: None,
    '_ZNSt8ios_base4InitC1Ev': lambda s, a, i: None,
    'omp_set_dynamic': lambda s, a, i: s.events.append(('omp_set_dynamic', a[0])),
    'omp_set_num_threads': lambda s, a, i: s.events.append(('omp_set_num_threads', a[0])),
    'omp_get_max_threads': lambda s, a, i: s.opts.get('omp_max_threads', 4),
    # default world: a team of one.  Two-thread world (opts['omp_world'] == 'upper2', used for memory-safety sinks only): the abstract
    # thread is thread 1 of a team of two and executes the upper half of every static work-sharing loop, which is what libomp
    # and libgomp give thread 1; a team of two is possible for every region that does not pin its team to one thread.
    'omp_get_thread_num': lambda s, a, i: 1 if getattr(s, 'team2', False) else 0,
    'omp_get_num_threads': lambda s, a, i: 2 if getattr(s, 'team2', False) else 1,
}


def _push_num_threads(s, a, i):
    s.events.append(('push_num_threads', a[2]))
    s._pushed = a[2]


def _kmpc_fork_call(s, args, ins):
    fnp = args[2]
    if not isinstance(fnp, FnPtr):
        raise Incomplete('__kmpc_fork_call with a non-constant microtask')
    if s.par is not None:
        raise Incomplete('nested parallel region')
    s.par_seq += 1
    s.par = s.par_seq
    s.iter_no = 0
    s.cur_iter = None
    s.par_log = []
    pushed = getattr(s, '_pushed', None)
    s._pushed = None
    s.team2 = s.opts.get('omp_world') in ('upper2', 'tid1') and (pushed is None or (isinstance(pushed, int) and pushed >= 2))
    site = s.mod.loc(ins.dbg) if ins is not None else (None, None)
    caller = s.stack[-1][0] if s.stack else None
    g = s.new_region('gtid', 'alloca', extent=4)
    b = s.new_region('btid', 'alloca', extent=4)
    s.mem[(g, 0)] = (0, 4)
    s.mem[(b, 0)] = (0, 4)
    try:
        s.call(fnp.name[1:], [Ptr(g, 0), Ptr(b, 0)] + list(args[3:]))
    finally:
        reg = dict(site=site, caller=caller, fn=fnp.name, iterations=s.iter_no, log=s.par_log)
        s.par_regions.append(reg)
        s.par = None
        s.team2 = False
        s.cur_iter = None
        s.par_log = []
    return None


def _kmpc_static_init(s, args, ins):
    loc, gtid, sched, plast, plower, pupper, pstride, incr, chunk = args
    if not isinstance(sched, int):
        raise Incomplete('symbolic OpenMP schedule')
    sz = 8 if ins is None or 'init_8' in ins.text else 4
    team2 = getattr(s, 'team2', False) and s.opts.get('omp_world') == 'upper2'     # 'tid1': thread 1 of 2 with every iteration (footprints only)
    mask = (1 << (8 * sz)) - 1
    if sched == 34 and team2:      # thread 1 of 2: the upper half [lo + ceil(n/2), up]
        lo = s.load_cell(plower, sz)
        up = s.load_cell(pupper, sz)
        if not (isinstance(lo, int) and isinstance(up, int) and incr == 1):
            raise Incomplete('symbolic loop bounds in the two-thread world')
        signed = not (ins is not None and ('init_8u' in ins.text or 'init_4u' in ins.text))
        lo_, up_ = (to_signed(lo, 8 * sz), to_signed(up, 8 * sz)) if signed else (lo, up)
        n = up_ - lo_ + 1
        if n > 0:
            s.store_cell(plower, (lo_ + (n + 1) // 2) & mask, sz)
    elif sched == 34:      # static, unchunked: the single abstract thread owns the whole iteration space
        pass
    elif sched == 33 and team2:    # thread 1 of 2: chunks 1, 3, 5, ...
        lo = s.load_cell(plower, sz)
        if not (isinstance(lo, int) and isinstance(chunk, int)):
            raise Incomplete('symbolic chunk bounds')
        s.store_cell(plower, (lo + chunk) & mask, sz)
        s.store_cell(pupper, (lo + 2 * chunk - 1) & mask, sz)
        s.store_cell(pstride, 2 * chunk, sz)
    elif sched == 33:      # static, chunked: chunks are visited one after the other (stride = chunk * 1 thread)
        lo = s.load_cell(plower, sz)
        if not (isinstance(lo, int) and isinstance(chunk, int)):
            raise Incomplete('symbolic chunk bounds')
        s.store_cell(pupper, (lo + chunk - 1) & ((1 << (8 * sz)) - 1), sz)
        s.store_cell(pstride, chunk, sz)
    else:
        raise Incomplete('OpenMP schedule kind %d is not modelled' % sched)
    s.store_cell(plast, 1, 4)
    return None


def _kmpc_dispatch_init(s, args, ins):
    # dynamic / guided schedules distribute whole iterations too: the single abstract thread receives the full range once
    loc, gtid, sched, lb, ub, st, chunk = args
    if not hasattr(s, '_dispatch'):
        s._dispatch = []
    s._dispatch.append([lb, ub, st, False])
    return None


def _kmpc_dispatch_next(s, args, ins):
    loc, gtid, plast, plower, pupper, pstride = args
    sz = 8 if ins is None or '_8' in ins.text else 4
    d = s._dispatch[-1]
    if d[3]:
        s._dispatch.pop()
        return 0
    d[3] = True
    s.store_cell(plower, d[0], sz)
    s.store_cell(pupper, d[1], sz)
    s.store_cell(pstride, d[2], sz)
    s.store_cell(plast, 1, 4)
    return 1


BUILTINS.update({
    '__kmpc_dispatch_init_8u': _kmpc_dispatch_init, '__kmpc_dispatch_init_8': _kmpc_dispatch_init,
    '__kmpc_dispatch_init_4u': _kmpc_dispatch_init, '__kmpc_dispatch_init_4': _kmpc_dispatch_init,
    '__kmpc_dispatch_next_8u': _kmpc_dispatch_next, '__kmpc_dispatch_next_8': _kmpc_dispatch_next,
    '__kmpc_dispatch_next_4u': _kmpc_dispatch_next, '__kmpc_dispatch_next_4': _kmpc_dispatch_next,
    '__kmpc_fork_call': _kmpc_fork_call,
    '__kmpc_for_static_init_8u': _kmpc_static_init, '__kmpc_for_static_init_8': _kmpc_static_init,
    '__kmpc_for_static_init_4u': _kmpc_static_init, '__kmpc_for_static_init_4': _kmpc_static_init,
    '__kmpc_for_static_fini': lambda s, a, i: None,
    '__kmpc_global_thread_num': lambda s, a, i: 0,
    '__kmpc_push_num_threads': _push_num_threads,
    '__kmpc_barrier': lambda s, a, i: None,
    # `parallel ... if(cond)`: when the condition is false the region body is called directly between these two markers
    '__kmpc_serialized_parallel': lambda s, a, i: None,
    '__kmpc_end_serialized_parallel': lambda s, a, i: None,
})


def run_global_ctors(interp, only=None):
    """evaluate the dynamic initialisers (they have no inputs) so that P, P_n, W[ ], SHIFT ... hold their values"""
    m = interp.mod
    for name in m.funcs:
        if name.startswith('__cxx_global_var_init'):
            f = m.fn(name)
            # skip iostream init
            txt = [i for _, i in f.instrs() if i.op in ('call', 'invoke')]
            if any(i.a[0][0] == 'g' and 'ios_base' in i.a[0][1] for i in txt):
                continue
            interp.call(name, [])
