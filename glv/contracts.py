"""The comment-level type system of the vector headers, made explicit (DESIGN §3.4, Appendix A).

One entry per function that contains raw 64-bit arithmetic.  `pre` gives the typestate each operand must
have (this is what every call site is checked against), `post` the typestate the callee may be relied on
to deliver, `alg` the algebraic relation.  Each entry quotes the header comment / naming rule it encodes.
Kernel mode (glv.kernel) proves every entry from the function body; wrapper mode (below) uses the entries
as summaries and checks the preconditions at every call site.

Typestates: zero < bits8 < bits32 < canon [0,p) < small [0,0xFFFFFFFF00000000] < u64.  's:' = shifted by 2^63.
"""
from .poly import FV, Poly, P, ts_le, ts_of_const, C
from .interp import Ptr, Incomplete, Undef, Region

V4 = 'long long vector[4]'
V8 = 'long long vector[8]'
E = 'Goldilocks::Element'


def sig3(name, V):
    return 'Goldilocks::%s(%s&, %s const&, %s const&)' % (name, V, V, V)


# kind 'field': out ≡ op(ins) (mod p).   operands: (name, pre typestate, shifted?)
# kind 'int'  : exact integer relation (kernel mode only)
FIELD = []


def F(sig, W, op, ins, out, src, params=None):
    FIELD.append(dict(sig=sig, W=W, op=op, ins=ins, out=out, src=src, params=params))


# ---- AVX2 (goldilocks_base_field_avx.hpp)
F(sig3('add_avx', V4), 4, 'add', [('a', 'u64', 0), ('b', 'u64', 0)], ('c', 'u64', 0), 'general-purpose adder (C02)')
F(sig3('sub_avx', V4), 4, 'sub', [('a', 'u64', 0), ('b', 'u64', 0)], ('c', 'u64', 0), 'general-purpose subtractor (C02)')
F(sig3('mult_avx', V4), 4, 'mul', [('a', 'u64', 0), ('b', 'u64', 0)], ('c', 'u64', 0), 'general-purpose multiplier (C02)')
F(sig3('mult_avx_8', V4), 4, 'mul', [('a', 'u64', 0), ('b', 'bits8', 0)], ('c', 'u64', 0),
  '"We assume coeficients of b_8 can be expressed with 8 bits (<256)"')
F('Goldilocks::square_avx(%s&, %s&)' % (V4, V4), 4, 'sq', [('a', 'u64', 0)], ('c', 'u64', 0), 'general-purpose square (C02)')
F(sig3('add_avx_b_small', V4), 4, 'add', [('a', 'u64', 0), ('b', 'small', 0)], ('c', 'u64', 0), '"Assume b<=0xFFFFFFFF00000000"')
F(sig3('add_avx_s_b_small', V4), 4, 'add', [('a', 'u64', 1), ('b', 'small', 0)], ('c', 'u64', 1),
  '"Assume a shifted (a_s) and b<=0xFFFFFFFF00000000"')
F(sig3('add_avx_a_sc', V4), 4, 'add', [('a', 'canon', 1), ('b', 'u64', 0)], ('c', 'u64', 0),
  '"we assume a given in shifted cannonical form (a_sc)"')
F(sig3('sub_avx_s_b_small', V4), 4, 'sub', [('a', 'u64', 1), ('b', 'small', 0)], ('c', 'u64', 1),
  '"Assume a pre-shifted and b <0xFFFFFFFF00000000"')
F('Goldilocks::shift_avx(%s&, %s const&)' % (V4, V4), 4, 'shift', [('a', 'u64', 0)], ('c', 'u64', 1), 'NOTATION: _s = shifted by 2^63')
F('Goldilocks::toCanonical_avx(%s&, %s const&)' % (V4, V4), 4, 'id', [('a', 'u64', 0)], ('c', 'canon', 0),
  '"Obtain cannonical representative of a"')
F('Goldilocks::toCanonical_avx_s(%s&, %s const&)' % (V4, V4), 4, 'id', [('a', 'u64', 1)], ('c', 'canon', 1),
  '"Obtain cannonical representative of a_s"')
F('Goldilocks::reduce_avx_128_64(%s&, %s const&, %s const&)' % (V4, V4, V4), 4, 'red', [('c_h', 'u64', 0), ('c_l', 'u64', 0)],
  ('c', 'u64', 0), 'notes above reduce_avx_128_64: c = c_h*2^64 + c_l (mod p)')
F('Goldilocks::reduce_avx_96_64(%s&, %s const&, %s const&)' % (V4, V4, V4), 4, 'red', [('c_h', 'bits32', 0), ('c_l', 'u64', 0)],
  ('c', 'u64', 0), '"c_hh = 0 in this case"')
# ---- AVX512 (goldilocks_base_field_avx512.hpp)
F(sig3('add_avx512', V8), 8, 'add', [('a', 'u64', 0), ('b', 'u64', 0)], ('c', 'u64', 0), 'general-purpose adder (C11)')
F(sig3('sub_avx512', V8), 8, 'sub', [('a', 'u64', 0), ('b', 'u64', 0)], ('c', 'u64', 0), 'general-purpose subtractor (C11)')
F(sig3('mult_avx512', V8), 8, 'mul', [('a', 'u64', 0), ('b', 'u64', 0)], ('c', 'u64', 0), 'general-purpose multiplier (C11)')
F(sig3('mult_avx512_8', V8), 8, 'mul', [('a', 'u64', 0), ('b', 'bits8', 0)], ('c', 'u64', 0),
  '"We assume coeficients of b_8 can be expressed with 8 bits (<256)"')
F('Goldilocks::square_avx512(%s&, %s&)' % (V8, V8), 8, 'sq', [('a', 'u64', 0)], ('c', 'u64', 0), 'general-purpose square (C11)')
F(sig3('add_avx512_b_c', V8), 8, 'add', [('a', 'u64', 0), ('b', 'canon', 0)], ('c', 'u64', 0), '"Assume b is in canonical form"')
F(sig3('sub_avx512_b_c', V8), 8, 'sub', [('a', 'u64', 0), ('b', 'canon', 0)], ('c', 'u64', 0),
  'suffix _b_c: b canonical (as add_avx512_b_c)')
F('Goldilocks::toCanonical_avx512(%s&, %s const&)' % (V8, V8), 8, 'id', [('a', 'u64', 0)], ('c', 'canon', 0),
  '"Obtain cannonical representative of a"')
F('Goldilocks::reduce_avx512_128_64(%s&, %s const&, %s const&)' % (V8, V8, V8), 8, 'red', [('c_h', 'u64', 0), ('c_l', 'u64', 0)],
  ('c', 'u64', 0), 'notes above reduce_avx512_128_64')
F('Goldilocks::reduce_avx512_96_64(%s&, %s const&, %s const&)' % (V8, V8, V8), 8, 'red', [('c_h', 'bits32', 0), ('c_l', 'u64', 0)],
  ('c', 'u64', 0), '"c_hh = 0 in this case"')

# exact integer products: c_h*2^64 + c_l = a*b over Z
INT = [
    dict(sig='Goldilocks::mult_avx_128(%s&, %s&, %s const&, %s const&)' % (V4, V4, V4, V4), W=4, op='mul128',
         ins=[('a', 'u64', 0), ('b', 'u64', 0)], src='"The 128 bits of the result are stored in c_h[64:0]| c_l[64:0]"'),
    dict(sig='Goldilocks::mult_avx_72(%s&, %s&, %s const&, %s const&)' % (V4, V4, V4, V4), W=4, op='mul128',
         ins=[('a', 'u64', 0), ('b', 'bits8', 0)], src='"The 72 bits the result are stored in c_h[32:0] | c_l[64:0]"', ch_max=255),
    dict(sig='Goldilocks::square_avx_128(%s&, %s&, %s const&)' % (V4, V4, V4), W=4, op='sq128', ins=[('a', 'u64', 0)],
         src='comment block above square_avx_128'),
    dict(sig='Goldilocks::mult_avx512_128(%s&, %s&, %s const&, %s const&)' % (V8, V8, V8, V8), W=8, op='mul128',
         ins=[('a', 'u64', 0), ('b', 'u64', 0)], src='as AVX2 twin'),
    dict(sig='Goldilocks::mult_avx512_72(%s&, %s&, %s const&, %s const&)' % (V8, V8, V8, V8), W=8, op='mul128',
         ins=[('a', 'u64', 0), ('b', 'bits8', 0)], src='as AVX2 twin', ch_max=255),
    dict(sig='Goldilocks::square_avx512_128(%s&, %s&, %s const&)' % (V8, V8, V8), W=8, op='sq128', ins=[('a', 'u64', 0)],
         src='as AVX2 twin'),
]

# 3-block diagonal products with 8-bit coefficients (raw adds of the 72-bit high parts inside)
DOT8 = [
    dict(sig='Goldilocks::spmv_avx_4x12_8(%s&, %s const&, %s const&, %s const&, %s const*)' % (V4, V4, V4, V4, E), W=4,
         src='"We assume coeficients of b_8 can be expressed with 8 bits (<256)"'),
    dict(sig='Goldilocks::spmv_avx512_4x12_8(%s&, %s const&, %s const&, %s const&, %s const*)' % (V8, V8, V8, V8, E), W=8,
         src='as AVX2 twin'),
]

# scalar primitives (goldilocks_base_field_scalar.hpp / _tools.hpp)
SCALAR = [
    dict(sig='Goldilocks::add(%s&, %s const&, %s const&)' % (E, E, E), op='add', src='C01: any uint64 is a legal representation'),
    dict(sig='Goldilocks::sub(%s&, %s const&, %s const&)' % (E, E, E), op='sub', src='C01'),
    dict(sig='Goldilocks::mul(%s&, %s const&, %s const&)' % (E, E, E), op='mul', src='C01'),
]
SCALAR_RET = [
    dict(sig='Goldilocks::inc(%s const&)' % E, op='inc', src='C01'),
    dict(sig='Goldilocks::dec(%s const&)' % E, op='dec', src='C01'),
]


def field_by_sig():
    return {c['sig']: c for c in FIELD}


# ------------------------------------------------------------------------------------------------
# wrapper-mode summaries
class Ctx:
    """per-analysis context: power-product table, contract-violation log"""

    def __init__(s, pp=None):
        s.pp = pp
        s.violations = []     # dicts
        s.calls = {}          # callee sig -> number of call sites presented (lane-level)
        s.sites = set()
        s.canon = {}          # canon{..} symbol -> residue normal form
        s.inv_args = {}       # Inv(..) atom -> argument normal form
        s.symbolic_canon = False

    def mul(s, x, y):
        if s.pp is not None and not (x.isconst() or y.isconst()):
            return s.pp.mul(x, y)      # AC-normalised opaque power products (Poseidon-sized forms)
        return (x * y).modp()


_CANON = {}     # canonical-integer symbols -> residue normal forms (filled by toU64_summary of the active context)


def to_fv(v):
    if isinstance(v, FV):
        return v
    if isinstance(v, int):
        return FV.const(v)
    if isinstance(v, Poly):
        if _CANON and any(x in _CANON for x in v.vars()):
            v = v.subst({x: _CANON[x] for x in v.vars() if x in _CANON})     # canon{nf} is congruent to nf
        return FV(v.modp(), 'u64')
    if isinstance(v, Undef):
        raise Incomplete('undefined lane used as a field operand')
    raise Incomplete('value %r used as a field operand' % (v,))


def rd_vec(I, p, W):
    if not isinstance(p, Ptr):
        raise Incomplete('vector operand is not a pointer')
    return [to_fv(I.load_cell(p.add(8 * i), 8)) for i in range(W)]


def wr_vec(I, p, vals):
    for i, v in enumerate(vals):
        I.store_cell(p.add(8 * i), v, 8)


def check_pre(I, ctx, c, opname, lane, v, need, need_sh, ins):
    site = (c['sig'], opname, I.stack[-1][0] if I.stack else None, ins.dbg if ins is not None else None)
    ctx.sites.add(site)
    bad = None
    if bool(v.sh) != bool(need_sh):
        bad = 'shifted flag %d, contract wants %d' % (v.sh, need_sh)
    elif not ts_le(v.ts, need):
        bad = 'typestate %s, contract wants %s' % (v.ts, need)
    if bad:
        ctx.violations.append(dict(kind='contract', callee=c['sig'], operand=opname, lane=lane, detail=bad, src=c['src'],
                                   loc=I.mod.loc_chain(ins.dbg) if ins is not None else [], stack=I.where()))


def make_field_summary(c, ctx):
    W = c['W']
    op = c['op']
    ins_ = c['ins']
    outn, outts, outsh = c['out']

    def f(I, args, ins):
        outp = args[0]
        vs = [rd_vec(I, a, W) for a in args[1:1 + len(ins_)]]
        res = []
        for i in range(W):
            xs = [v[i] for v in vs]
            for (nm, need, nsh), x in zip(ins_, xs):
                check_pre(I, ctx, c, nm, i, x, need, nsh, ins)
            if op == 'add':
                nf = (xs[0].nf + xs[1].nf).modp()
            elif op == 'sub':
                nf = (xs[0].nf - xs[1].nf).modp()
            elif op == 'mul':
                nf = ctx.mul(xs[0].nf, xs[1].nf)
            elif op == 'sq':
                nf = ctx.mul(xs[0].nf, xs[0].nf)
            elif op in ('id', 'shift'):
                nf = xs[0].nf
            else:
                raise Incomplete('no wrapper summary for op ' + op)
            ts = outts
            if nf.isconst() and op == 'id':
                ts = ts_of_const(nf.cval())
            res.append(FV(nf, ts, bool(outsh)))
        wr_vec(I, outp, res)
        return None
    return f


def make_dot8_summary(c, ctx):
    W = c['W']

    def f(I, args, ins):
        cp, a0, a1, a2, b = args
        av = [rd_vec(I, a, W) for a in (a0, a1, a2)]
        res = []
        for i in range(W):
            acc = Poly()
            for j in range(3):
                y = to_fv(I.load_cell(b.add(8 * (4 * j + i % 4)), 8))
                check_pre(I, ctx, c, 'b_8[%d]' % (4 * j + i % 4), i, y, 'bits8', 0, ins)
                check_pre(I, ctx, c, 'a%d' % j, i, av[j][i], 'u64', 0, ins)
                acc = acc + ctx.mul(av[j][i].nf, y.nf)
            res.append(FV(acc.modp(), 'u64'))
        wr_vec(I, cp, res)
        return None
    return f


_scalar_post = {}


def scalar_post(mod):
    """{op: 'canon' | 'u64'}: the range of the scalar primitives' results as PROVED in kernel mode on the current tree (cached per
    tree): the header promises no more than "some 64-bit representation", but code may legitimately rely on what the routine
    really delivers (the pinned `mul` always returns the canonical representative).  A range that is not proved is 'u64'."""
    from . import front
    import json, os
    key = id(mod)
    if key in _scalar_post:
        return _scalar_post[key]
    path = None
    try:
        path = os.path.join(front.cache_dir(), 'scalar_post.json')
        if os.path.exists(path):
            _scalar_post[key] = json.load(open(path))
            return _scalar_post[key]
    except (OSError, ValueError):
        pass
    out = {}
    try:
        from . import kprove
        smod = front.module('avx2', sroa=True)
        for c in SCALAR:
            try:
                name = smod.find(c['sig'])
                sp = {'add': (lambda A: A['a'] + A['b']), 'sub': (lambda A: A['a'] - A['b']), 'mul': (lambda A: A['a'] * A['b'])}[c['op']]
                r = kprove.prove_cells(smod, name, 3, [(1, 0, 'a', 'u64'), (2, 0, 'b', 'u64')], [(0, 0)], [sp], post='canon', budget=20000)
                out[c['op']] = 'canon' if (not r.failures and not r.undecided and r.cells > 0) else 'u64'
            except Exception:
                out[c['op']] = 'u64'
    except Exception:
        out = {}
    _scalar_post[key] = out
    if path and out:
        try:
            with open(path + '.tmp%d' % os.getpid(), 'w') as f:
                json.dump(out, f)
            os.replace(path + '.tmp%d' % os.getpid(), path)
        except OSError:
            pass
    return out


def make_scalar_summary(c, ctx, post='u64'):
    op = c['op']

    def f(I, args, ins):
        r, a, b = args
        x = to_fv(I.load_cell(a, 8))
        y = to_fv(I.load_cell(b, 8))
        for nm, v in (('in1', x), ('in2', y)):
            if v.sh:
                check_pre(I, ctx, c, nm, 0, v, 'u64', 0, ins)
        if op == 'add':
            nf = (x.nf + y.nf).modp()
        elif op == 'sub':
            nf = (x.nf - y.nf).modp()
        else:
            nf = ctx.mul(x.nf, y.nf)
        I.store_cell(r, FV(nf, post), 8)
        return None
    return f


def make_incdec_summary(c, ctx):
    d = 1 if c['op'] == 'inc' else -1

    def f(I, args, ins):
        x = to_fv(I.load_cell(args[0], 8))
        return FV((x.nf + d).modp(), 'u64')
    return f


def toU64_summary(ctx):
    """toU64 delivers the canonical integer of the residue: concrete for constants; for symbolic values the
    integer is data dependent and is represented by the opaque symbol canon{nf} (only equality tests on it
    can be decided, through the caller's `decide` hook)"""
    def canon(I, x):
        if x.nf.isconst():
            return x.nf.cval()
        if not getattr(ctx, 'symbolic_canon', False):
            raise Incomplete('toU64 of a symbolic field value (data-dependent integer)')
        nm = 'canon{%s}' % (x.nf,)
        ctx.canon[nm] = x.nf
        _CANON[nm] = x.nf
        return Poly.var(nm)

    def f(I, args, ins):
        if len(args) == 2:
            x = to_fv(I.load_cell(args[1], 8))
            I.store_cell(args[0], canon(I, x), 8)
            return None
        x = to_fv(I.load_cell(args[0], 8))
        return canon(I, x)
    return f


def inv_summary(ctx):
    def f(I, args, ins):
        # Goldilocks::inv(Element const&) -> Element ; Goldilocks::inv(Element&, Element const&)
        src = args[-1]
        x = to_fv(I.load_cell(src, 8))
        if x.nf.isconst():
            v = x.nf.cval()
            if v == 0:
                I.sink('exit', 'Goldilocks::inv called with zero')
            r = FV.const(pow(v, P - 2, P))
        else:
            nm = 'Inv(%s)' % (x.nf,)
            ctx.inv_args[nm] = x.nf
            r = FV(Poly.var(nm), 'u64')
        if len(args) == 2:
            I.store_cell(args[0], r, 8)
            return None
        return r
    return f


def wrapper_summaries(mod, ctx, scalar=True, only=None):
    """mangled name -> summary for every contracted kernel present in the module"""
    out = {}
    missing = []

    def put(sig, h):
        try:
            out[mod.find(sig)] = h
        except KeyError:
            missing.append(sig)
    for c in FIELD:
        if c['op'] in ('red',):
            continue
        put(c['sig'], make_field_summary(c, ctx))
    for c in DOT8:
        put(c['sig'], make_dot8_summary(c, ctx))
    if scalar:
        sp_ = scalar_post(mod)
        for c in SCALAR:
            put(c['sig'], make_scalar_summary(c, ctx, sp_.get(c['op'], 'u64')))
        for c in SCALAR_RET:
            put(c['sig'], make_incdec_summary(c, ctx))
        put('Goldilocks::toU64(unsigned long&, %s const&)' % E, toU64_summary(ctx))
        put('Goldilocks::inv(%s&, %s const&)' % (E, E), inv_summary(ctx))
        # derived scalar routines and predicates whose body does raw integer arithmetic on the representation (a hand-written
        # `p - x`, a direct word comparison): wrapper mode cannot follow such a body, so callers use the routine's contract;
        # the routine itself is decided on exact integers by C01 (derived API) / C15 (predicates).  Routines written in terms
        # of the field primitives (the pinned tree) are interpreted as before.
        for sig, h in derived_summaries(ctx):
            try:
                n_ = mod.find(sig)
            except KeyError:
                continue
            if raw_body(mod, n_):
                out[n_] = h
    return out, missing


RAW_OPS = ('add', 'sub', 'mul', 'udiv', 'urem', 'sdiv', 'srem', 'and', 'or', 'xor', 'shl', 'lshr', 'ashr', 'icmp', 'select')


def raw_body(mod, name):
    """does the routine compute on 64-bit integers itself (rather than only calling other routines)?"""
    try:
        fn = mod.fn(name)
    except Exception:
        return False
    for b in fn.order:
        for ins in fn.blocks[b]:
            if ins.op in RAW_OPS:
                tys = [ins.ty] + ([ins.x] if isinstance(ins.x, tuple) and ins.x and ins.x[0] == 'i' else [])
                if any(isinstance(t, tuple) and t and t[0] == 'i' and t[1] >= 64 for t in tys) or ins.op == 'icmp':
                    return True
    return False


def derived_summaries(ctx):
    canon = toU64_summary(ctx)

    def cval(I, v):
        # the canonical integer of a field value, as toU64 would deliver it
        r_ = Region('tmp-canon', 'alloca', extent=8)
        I.mem[(r_, 0)] = (v, 8)
        return canon(I, [Ptr(r_, 0)], None)

    def unary(op):
        def f(I, args, ins):
            src = args[-1]
            x = to_fv(I.load_cell(src, 8))
            nf = (-x.nf).modp() if op == 'neg' else ctx.mul(x.nf, x.nf)
            r = FV(nf, 'u64')
            if len(args) == 2:
                I.store_cell(args[0], r, 8)
                return None
            return r
        return f

    def pred(kind):
        def f(I, args, ins):
            x = to_fv(I.load_cell(args[0], 8))
            if kind == 'equal':
                y = to_fv(I.load_cell(args[1], 8))
                return I.icmp('eq', cval(I, FV((x.nf - y.nf).modp(), 'u64')), 0, ('i', 64))
            c = {'isZero': 0, 'isOne': 1, 'isNegone': P - 1}[kind]
            return I.icmp('eq', cval(I, FV((x.nf - c).modp(), 'u64')), 0, ('i', 64))
        return f
    out = [('Goldilocks::neg(%s const&)' % E, unary('neg')), ('Goldilocks::neg(%s&, %s const&)' % (E, E), unary('neg')),
           ('Goldilocks::square(%s const&)' % E, unary('square')), ('Goldilocks::square(%s&, %s const&)' % (E, E), unary('square')),
           ('Goldilocks::isZero(%s const&)' % E, pred('isZero')), ('Goldilocks::isOne(%s const&)' % E, pred('isOne')),
           ('Goldilocks::isNegone(%s const&)' % E, pred('isNegone')), ('Goldilocks::equal(%s const&, %s const&)' % (E, E), pred('equal'))]
    return out


