"""Obligation bookkeeping, known-findings matching, evidence writing, exit codes (DESIGN §0, §7)."""
import json, os, sys, time, hashlib

ROOT = os.path.dirname(os.path.dirname(os.path.abspath(__file__)))
KNOWN = os.path.join(ROOT, 'known_findings.json')


class Report:
    def __init__(s, pid, tier, seed=0, level='proof'):
        s.pid = pid
        s.tier = tier
        s.seed = seed
        s.level = level
        s.t0 = time.time()
        s.obl = []            # dicts: id, status, rule, site, detail
        s.floors = []         # (name, measured, floor)
        s.cov = {}            # extra coverage keys
        s.samples = []
        s.assumptions = []
        s.trusted = []
        s.rule_text = ''
        s.explanation = ''
        s.info = []

    # status: 'discharged' | 'refuted' | 'incomplete'
    def add(s, oid, status, rule, site='', detail='', witness=None):
        s.obl.append(dict(id=oid, status=status, rule=rule, site=site, detail=detail, witness=witness))

    def ok(s, oid, rule, site='', detail=''):
        s.add(oid, 'discharged', rule, site, detail)

    def refute(s, oid, rule, site='', detail='', witness=None):
        s.add(oid, 'refuted', rule, site, detail, witness)

    def incomplete(s, oid, rule, site='', detail=''):
        s.add(oid, 'incomplete', rule, site, detail)

    def floor(s, name, measured, floor):
        s.floors.append((name, measured, floor))

    def sample(s, x):
        if len(s.samples) < 12:
            s.samples.append(x)

    def note(s, msg):
        s.info.append(msg)

    def merge(s, other, prefix=''):
        for o in other.obl:
            o = dict(o)
            o['id'] = prefix + o['id']
            s.obl.append(o)
        s.floors += other.floors
        s.samples += other.samples[:4]
        for a in other.assumptions:
            if a not in s.assumptions:
                s.assumptions.append(a)
        for a in other.trusted:
            if a not in s.trusted:
                s.trusted.append(a)
        s.info += other.info
        for k, v in other.cov.items():
            if isinstance(v, int) and isinstance(s.cov.get(k), int):
                s.cov[k] += v
            elif isinstance(v, list) and isinstance(s.cov.get(k), list):
                s.cov[k] = s.cov[k] + v
            else:
                s.cov.setdefault(k, v)


def load_known():
    try:
        with open(KNOWN) as f:
            return json.load(f)
    except FileNotFoundError:
        return {'findings': []}


def match_known(pid, o, known):
    """a refuted obligation is a known finding iff a 'known' entry for this property names its obligation id"""
    for k in known.get('findings', []):
        if k.get('status') != 'known' or k.get('property') != pid:
            continue
        if k.get('obligation') and k['obligation'] == o['id']:
            return k
    return None


def finish(rep, argv_cmd=None):
    """print the verdict, write the evidence file, return the exit code"""
    pid = rep.pid
    known = load_known()
    refuted = [o for o in rep.obl if o['status'] == 'refuted']
    incompl = [o for o in rep.obl if o['status'] == 'incomplete']
    disch = [o for o in rep.obl if o['status'] == 'discharged']
    # a floor is the instance count confirmed by hand on the pinned tree; a refactor may legitimately merge or remove a
    # few instances, so the rule counts as gone vacuous (analysis broken) only when more than a third of them vanished
    floors_bad = [(n, m, f) for n, m, f in rep.floors if m < (max(1, (2 * f) // 3) if f > 0 else 0)]
    new_viol = []
    known_hit = []
    for o in refuted:
        k = match_known(pid, o, known)
        if k:
            known_hit.append((o, k))
        else:
            new_viol.append(o)
    evdir = os.environ.get('GLV_EVIDENCE') or os.path.join(ROOT, 'evidence')   # redirected by the mutation / refactor test scripts only
    os.makedirs(evdir, exist_ok=True)
    rdir = os.path.join(os.environ.get('GLV_WORK') or os.path.join(ROOT, '.work'), 'replay')
    os.makedirs(rdir, exist_ok=True)
    for o, k in known_hit:
        print('KNOWN-FINDING: property=%s %s' % (pid, k.get('what', o['id'])))
    for i, o in enumerate(new_viol):
        rp = os.path.join(rdir, '%s-%s.json' % (pid, hashlib.sha1(o['id'].encode()).hexdigest()[:10]))
        with open(rp, 'w') as f:
            json.dump(dict(property=pid, tier=rep.tier, obligation=o), f, indent=1, default=str)
        if i < 25:
            print('  refuted: [%s] %s @ %s: %s' % (o['rule'], o['id'], o['site'], o['detail']))
            print('VIOLATION property=%s replay=%s' % (pid, rp))
    if len(new_viol) > 25:
        print('  ... and %d more refuted obligations (all listed in the evidence file)' % (len(new_viol) - 25))
    for o in incompl[:40]:
        print('ANALYSIS-INCOMPLETE property=%s [%s] %s @ %s: %s' % (pid, o['rule'], o['id'], o['site'], o['detail']))
    if len(incompl) > 40:
        print('ANALYSIS-INCOMPLETE property=%s ... %d more' % (pid, len(incompl) - 40))
    for n, m, f in floors_bad:
        print('ANALYSIS-INCOMPLETE property=%s instance floor %s: measured %d, confirmed on the pinned tree %d (more than a third vanished)' % (pid, n, m, f))
    nob = len(rep.obl)
    distinct = len({(o['rule'], o['id']) for o in rep.obl})
    cov = dict(rep.cov)
    cov.update(dict(
        obligations=nob, discharged=len(disch), refuted=len(refuted), incomplete=len(incompl),
        known_findings_seen=len(known_hit),
        checker_cmd=argv_cmd or ('python3 -m glv.check %s --tier %s' % (pid, rep.tier)),
        trusted_base=rep.trusted or ['clang 14 front end and -O0 lowering', 'glv IR loader and abstract semantics (this repository)'],
        evaluations=max(nob, 1), distinct_nontrivial=max(distinct, 0),
        rule=rep.rule_text, explanation=rep.explanation or rep.rule_text,
        samples=rep.samples or [dict(note='no obligations generated')],
        instance_floors=[dict(name=n, measured=m, confirmed=f, floor=(max(1, (2 * f) // 3) if f > 0 else 0)) for n, m, f in rep.floors],
        rules={},
    ))
    byrule = {}
    for o in rep.obl:
        d = byrule.setdefault(o['rule'], dict(discharged=0, refuted=0, incomplete=0))
        d[o['status']] += 1
    cov['rules'] = byrule
    if rep.info:
        cov['information'] = rep.info[:50]
    if refuted:
        cov['refuted_obligations'] = [dict(id=o['id'], rule=o['rule'], site=o['site'], detail=o['detail'][:400]) for o in refuted[:200]]
    ev = dict(property_id=pid, tier=rep.tier, seed=rep.seed, level=rep.level, coverage=cov,
              assumptions=rep.assumptions, wall_s=round(time.time() - rep.t0, 3), violations=len(new_viol))
    with open(os.path.join(evdir, pid + '.json'), 'w') as f:
        json.dump(ev, f, indent=1, default=str)
        f.write('\n')
    print('%s %s: %d obligations, %d discharged, %d refuted (%d known), %d incomplete; %.1fs' % (
        pid, rep.tier, nob, len(disch), len(refuted), len(known_hit), len(incompl), time.time() - rep.t0))
    for r, d in sorted(byrule.items()):
        print('   %-28s %s' % (r, ' '.join('%s=%d' % kv for kv in d.items() if kv[1])))
    if new_viol:
        return 1
    if incompl or floors_bad or nob == 0:
        return 2
    return 0
