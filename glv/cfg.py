"""CFG / SSA helpers over decoded IR functions (SROA-normalised modules): successors, predecessors, dominators,
definitions, backward slices."""


def regs_of(v, out=None):
    """register names used by an operand tuple"""
    if out is None:
        out = []
    if not isinstance(v, tuple):
        return out
    if v and v[0] == 'r':
        out.append(v[1])
        return out
    for x in v:
        if isinstance(x, tuple):
            regs_of(x, out)
    return out


class FnInfo:
    def __init__(s, fn):
        fn.decode()
        s.fn = fn
        s.succ = {}
        s.pred = {b: [] for b in fn.order}
        s.defs = {}          # reg -> (block, instr)
        s.term = {}
        for b in fn.order:
            blk = fn.blocks[b]
            t = blk[-1] if blk else None
            s.term[b] = t
            ss = []
            if t is not None:
                if t.op == 'br':
                    ss = list(t.x)
                elif t.op == 'switch':
                    ss = [t.x[0]] + [l for _, l in t.x[1]]
                elif t.op == 'invoke':
                    ss = [t.x['normal'], t.x['unwind']]
            s.succ[b] = ss
            for ins in blk:
                if ins.dst:
                    s.defs[ins.dst] = (b, ins)
        for b, ss in s.succ.items():
            for x in ss:
                if x in s.pred:
                    s.pred[x].append(b)
        s.params = {pn for t, pn in fn.params if pn}
        s._dom = None

    def dominators(s):
        if s._dom is None:
            order = s.fn.order
            allb = set(order)
            dom = {b: set(allb) for b in order}
            dom[order[0]] = {order[0]}
            changed = True
            while changed:
                changed = False
                for b in order[1:]:
                    ps = [dom[p] for p in s.pred[b]]
                    nd = set.intersection(*ps) if ps else set()
                    nd = nd | {b}
                    if nd != dom[b]:
                        dom[b] = nd
                        changed = True
            s._dom = dom
        return s._dom

    def uses(s, ins):
        out = []
        for a in ins.a:
            regs_of(a, out)
        return out

    def backward_slice(s, regs, through_loads=False, limit=2000):
        """registers (and params) the given registers depend on through SSA data flow (phi, arithmetic, casts, selects, geps)"""
        seen = set()
        todo = list(regs)
        while todo and len(seen) < limit:
            r = todo.pop()
            if r in seen:
                continue
            seen.add(r)
            d = s.defs.get(r)
            if d is None:
                continue
            ins = d[1]
            if ins.op == 'load' and not through_loads:
                # the loaded value depends on the address (field identity), recorded but not followed further
                for u in s.uses(ins):
                    seen.add(u)
                    dd = s.defs.get(u)
                    if dd is not None and dd[1].op in ('getelementptr', 'bitcast'):
                        todo.append(u)
                continue
            if ins.op == 'phi':
                for v, l in ins.a:
                    todo += regs_of(v)
            else:
                todo += s.uses(ins)
        return seen

    def reachable_from(s, b):
        seen = set()
        todo = [b]
        while todo:
            x = todo.pop()
            if x in seen:
                continue
            seen.add(x)
            todo += s.succ.get(x, [])
        return seen

    def users(s, reg):
        out = []
        for b in s.fn.order:
            for ins in s.fn.blocks[b]:
                if ins.op == 'phi':
                    if any(reg in regs_of(v) for v, l in ins.a):
                        out.append((b, ins))
                elif reg in s.uses(ins):
                    out.append((b, ins))
        return out


def callee_name(ins):
    if ins.op in ('call', 'invoke') and ins.a and ins.a[0][0] == 'g':
        return ins.a[0][1][1:]
    return None


def field_of_this(info, v, this='%this'):
    """if operand v is the address of field k of the object (gep this, 0, k [through bitcasts]) return k, else None"""
    n = 0
    while v and v[0] == 'r' and n < 10:
        d = info.defs.get(v[1])
        if d is None:
            return None
        ins = d[1]
        if ins.op == 'bitcast':
            v = ins.a[0]
        elif ins.op == 'getelementptr':
            base = ins.a[0]
            if base == ('r', this) and len(ins.a) == 3 and ins.a[1] == ('i', 0) and ins.a[2][0] == 'i':
                return ins.a[2][1]
            return None
        else:
            return None
        n += 1
    return None
