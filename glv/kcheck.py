"""Shared driver for the kernel-contract properties C01 / C02 / C11."""
from . import front, contracts, kprove
from .kernel import KPtr, sym64, BOXES
from .poly import Poly, P, M32, M64
from .wrapcheck import site_of


def record(rep, tag, rule, site, r, what):
    """turn a kprove.Outcome into obligations"""
    if r.undecided:
        rep.incomplete(tag, rule, site, '%s: %s' % (what, r.undecided[0][:300]))
        return False
    if r.cells == 0:
        rep.incomplete(tag, rule, site, '%s: no abstract cell was produced' % what)
        return False
    if r.failures:
        # a cell with a concrete witness decides; cells that are merely not discharged (possibly empty) do not
        withw = [f_ for f_ in r.failures if f_.get('witness') is not None]
        f = withw[0] if withw else r.failures[0]
        if f['witness'] is not None or ('differs' not in f['detail'] and f.get('kind') != 'range'):
            wtxt = ''
            if f['witness']:
                w = f['witness']
                vals = {}
                single = {}
                for k, v in w.items():
                    if k[-1:] in 'hl' and (k[:-1] + 'h') in w and (k[:-1] + 'l') in w:
                        vals.setdefault(k[:-1], {})[k[-1]] = v
                    else:
                        single[k] = v
                # symbols introduced by a summary (v<n>: the value a proved callee returns) are not inputs
                import re as _re
                wtxt = ' witness: ' + ', '.join(['%s=0x%016x' % (n, (d.get('h', 0) << 32) + d.get('l', 0)) for n, d in sorted(vals.items())
                                                 if not _re.match(r'^[fkv]\d+$', n)] + ['%s=0x%x' % kv for kv in sorted(single.items())])
            if f.get('contract_level') and wtxt:
                wtxt += ' [with results of the summarised callees chosen inside their contracts]'
            rep.refute(tag, rule, site, '%s: %s%s (%d of %d cells fail)' % (what, f['detail'][:300], wtxt, len(r.failures), r.cells),
                       witness=f['witness'])
        else:
            rep.incomplete(tag, rule, site, '%s: cell not discharged and no witness found: %s' % (what, f['detail'][:200]))
        return False
    rep.ok(tag, rule, site, '%s: %d cells, output %s' % (what, r.cells, 'canonical' if r.max_out < P else 'any 64-bit representation'))
    return True


def prove_field_contracts(rep, cfg, W, lanes=None, seed=0):
    mod = front.module(cfg, sroa=True)
    n = 0
    for c in contracts.FIELD:
        if c['W'] != W:
            continue
        try:
            name = mod.find(c['sig'])
        except KeyError:
            rep.incomplete('contract:%s/%s' % (cfg, c['sig']), 'kernel-contract', '', 'contracted kernel not found in the module')
            continue
        n += 1
        site = site_of(mod, name)
        short = c['sig'].split('(')[0].split('::')[1]
        for lane in (lanes if lanes is not None else range(W)):
            r = kprove.prove(mod, name, c['ins'], [(c['out'][1], c['out'][2])], lambda A, op=c['op']: kprove.spec_poly(op, A),
                             W=W, lanes=[lane], seed=seed)
            pre = ', '.join('%s:%s%s' % (nm, 's:' if sh else '', ts) for nm, ts, sh in c['ins'])
            ok = record(rep, 'contract:%s/%s lane %d' % (cfg, short, lane), 'kernel-contract', site, r,
                        '%s(%s) -> %s%s, c = %s (mod p)' % (short, pre, 's:' if c['out'][2] else '', c['out'][1], c['op']))
            if ok and lane == 0:
                rep.sample(dict(config=cfg, kernel=short, pre=pre, post=c['out'][1], cells=r.cells, source=c['src']))
        # in place: the output register is also an operand (st = st + c is how every caller accumulates), and both
        # operands the same register; the contract must hold with the operand read before the result is written.
        # Aliasing does not depend on the lane: one lane.
        ins = c['ins']
        hyps = [({i: 0}, None, '%s=c' % ins[i][0]) for i in range(len(ins))]
        if len(ins) == 2 and ins[0][1:] == ins[1][1:]:
            hyps.append((None, {1: 0}, '%s=%s' % (ins[1][0], ins[0][0])))
            hyps.append(({0: 0}, {1: 0}, '%s=%s=c' % (ins[0][0], ins[1][0])))
        for al, al_in, label in hyps:
            spec = lambda A, op=c['op']: kprove.spec_poly(op, A)
            r = kprove.prove(mod, name, ins, [(c['out'][1], c['out'][2])], spec, W=W, lanes=[0], seed=seed, alias=al, alias_in=al_in)
            record(rep, 'contract:%s/%s in place %s' % (cfg, short, label), 'kernel-contract', site, r,
                   '%s with %s (same register)' % (short, label))
    for c in contracts.INT:
        if c['W'] != W:
            continue
        try:
            name = mod.find(c['sig'])
        except KeyError:
            rep.incomplete('contract:%s/%s' % (cfg, c['sig']), 'kernel-contract', '', 'contracted kernel not found in the module')
            continue
        n += 1
        site = site_of(mod, name)
        short = c['sig'].split('(')[0].split('::')[1]
        sp = (lambda A: A[0] * A[1]) if c['op'] == 'mul128' else (lambda A: A[0] * A[0])
        outs = [('bits8' if c.get('ch_max') else 'u64', 0), ('u64', 0)]
        for lane in (lanes if lanes is not None else range(W)):
            r = kprove.prove(mod, name, c['ins'], outs, sp, W=W, lanes=[lane], exact=True, use_int_summaries=False, seed=seed)
            record(rep, 'contract:%s/%s lane %d' % (cfg, short, lane), 'kernel-exact-product', site, r,
                   '%s: c_h*2^64 + c_l = product over Z, every intermediate add wrap-free' % short)
            if r.cells > 1:
                rep.incomplete('nowrap:%s/%s lane %d' % (cfg, short, lane), 'kernel-exact-product', site,
                               'an intermediate addition may wrap (%d cells)' % r.cells)
    n += prove_dot8(rep, cfg, W, lanes=lanes, seed=seed)
    return n


def prove_dot8(rep, cfg, W, lanes=None, seed=0):
    """the 8-bit-coefficient sparse kernels (raw adds of 72-bit products inside): kernel mode, every lane"""
    mod = front.module(cfg, sroa=True)
    n = 0
    for c in contracts.DOT8:
        if c['W'] != W:
            continue
        try:
            name = mod.find(c['sig'])
        except KeyError:
            rep.incomplete('contract:%s/%s' % (cfg, c['sig']), 'kernel-contract', '', 'contracted kernel not found in the module')
            continue
        n += 1
        site = site_of(mod, name)
        short = c['sig'].split('(')[0].split('::')[1]

        def extra(K, case, st, ptrs, lane, A):
            bp = ptrs[-1]
            for k in range(12):
                st.mem[KPtr(bp.obj, 8 * k)] = sym64(case, 'b%d_' % k, BOXES['bits8'][0])
        for lane in (lanes if lanes is not None else range(W)):
            def spec(A, lane=lane):
                r_ = Poly()
                for j in range(3):
                    k = 4 * j + lane % 4
                    r_ = r_ + A[j] * (Poly.var('b%d_h' % k) * M32 + Poly.var('b%d_l' % k))
                return r_
            r = kprove.prove(mod, name, [('a0', 'u64', 0), ('a1', 'u64', 0), ('a2', 'u64', 0)], [('u64', 0)], spec, W=W, lanes=[lane],
                             extra_mem=extra, extra_ptrs=[KPtr('bcoef', 0)], seed=seed)
            record(rep, 'contract:%s/%s lane %d' % (cfg, short, lane), 'kernel-contract', site, r,
                   '%s: c[i] = sum_j a_j[i]*b_8[4j+i%%4] with b_8 < 2^8 (raw adds of the 72-bit high parts shown wrap-free)' % short)
    return n
