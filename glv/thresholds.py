"""Threshold-directed shape selection for the bounded-shape tiers.

A bounded tier explores a grid of shapes.  A change that behaves differently only beyond some size does so because the
code *compares* a shape-derived quantity with a constant (a tile size, a stack-buffer length, a cap on fused stages, a
chunk length, the width of a narrow counter).  Those constants are visible in the IR.  This module harvests the integer
constants of the shape-driven routines (operands of comparisons, min/max, arithmetic and masks on integers, lengths of
fixed-size local arrays, widths of narrow loop-carried integers) and reports those that are NOT in the baseline confirmed
on the pinned tree; each tier then adds shapes on both sides of every new constant.  On the pinned tree the set of new
constants is empty, so nothing is added; the harvest is cheap (one pass over a few dozen functions).

The baseline is only an economy (known constants such as RATE, CAPACITY, the bit-reversal masks do not need shapes of their
own: the default grid straddles them); a constant missing from it costs extra exploration, never a verdict."""
import re

# (kind, value) of the integer constants of the shape-driven routines on the pinned tree (2 <= value <= 2^24), per family
BASELINE = {
    'ntt': {('arith', 2), ('arith', 4), ('arith', 8), ('arith', 16), ('arith', 32), ('arith', 16711935)},
    'poseidon': {('arith', 2), ('arith', 4), ('arith', 8), ('array', 8), ('array', 12), ('array', 24), ('cmp', 4), ('cmp', 8), ('phi', 8)},
    'par': {('arith', 8)},
    'batchinv': {('arith', 24), ('array', 3)},
}
FAMILY_PAT = {
    'ntt': r'^(NTT_Goldilocks::|BR\()',
    'poseidon': r'^PoseidonGoldilocks::(merkletree|linear_hash)',
    'par': r'^Goldilocks::(parcpy|parSetZero)\(',
    'batchinv': r'^Goldilocks3::batchInverse',
}
OPS = ('icmp', 'select', 'add', 'sub', 'mul', 'udiv', 'urem', 'sdiv', 'srem', 'and', 'shl', 'lshr', 'phi')
LIMIT = 1 << 24


def _family_functions(mod, fam):
    """functions of the family plus the OpenMP-outlined bodies defined in the same source file"""
    pat = re.compile(FAMILY_PAT[fam])
    names = [n for n in mod.funcs if pat.search(mod.dem.get(n, n))]
    files = set()
    for n in names:
        try:
            files.add(mod.fn_loc(n)[0])
        except Exception:
            pass
    for n in mod.funcs:
        if 'omp_outlined' in n:
            try:
                if mod.fn_loc(n)[0] in files:
                    names.append(n)
            except Exception:
                pass
    return names


def harvest(mod, fam):
    """-> (set of integer constants, set of narrow loop-carried widths)"""
    consts = set()
    narrow = set()
    for n in _family_functions(mod, fam):
        try:
            fn = mod.fn(n)
        except Exception:
            continue
        for b in fn.order:
            for ins in fn.blocks[b]:
                if ins.op == 'alloca':
                    m = re.search(r'alloca \[(\d+) x ', ins.text)
                    if m:
                        consts.add(('array', int(m.group(1))))
                    continue
                if ins.op == 'call':
                    cal = ins.a[0] if ins.a else None
                    if cal and cal[0] == 'g' and re.match(r'@?llvm\.(u|s)(min|max)\.', cal[1]):
                        for a in ins.a[1:]:
                            if isinstance(a, tuple) and a[0] == 'i' and isinstance(a[1], int):
                                consts.add(('cmp', a[1]))
                    continue
                if ins.op not in OPS:
                    continue
                if ins.op == 'phi':
                    if ins.ty in (('i', 8), ('i', 16)):
                        narrow.add(ins.ty[1])
                    ops = [x[0] for x in ins.a]
                else:
                    ops = ins.a
                    if ins.op in ('add', 'sub', 'mul') and ins.ty in (('i', 8), ('i', 16)):
                        narrow.add(ins.ty[1])
                kind = 'cmp' if ins.op in ('icmp', 'select') else ('phi' if ins.op == 'phi' else 'arith')
                for a in ops:
                    if isinstance(a, tuple) and a[0] == 'i' and isinstance(a[1], int):
                        consts.add((kind, a[1]))
    consts = {(k, c) for k, c in consts if 2 <= c <= LIMIT}
    return consts, narrow


_cache = {}


def new_thresholds(fam, configs=('avx2', 'avx512')):
    """constants of the family's routines that the pinned tree did not have, plus 2^w for each narrow counter width"""
    from . import front
    key = (fam, tuple(configs))
    if key in _cache:
        return _cache[key]
    out = set()
    for cfg in configs:
        try:
            mod = front.module(cfg, omp=True)
        except Exception:
            continue
        consts, narrow = harvest(mod, fam)
        out |= {c for k, c in consts if (k, c) not in BASELINE[fam]}
        out |= {1 << w for w in narrow}
    _cache[key] = sorted(out)
    return _cache[key]


def pow2_at_least(c):
    n = 1
    while n < c:
        n *= 2
    return n


# ---------------------------------------------------------------------------------------------------------------------
# shapes on both sides of a threshold, per family.  MAXN bounds the cost (a symbolic transform of size n costs ~ n^2 log n).
def ntt_extra(ths, tier='quick'):
    """(cap, n, ncols, nphase, nblock, buf, dstmode, nthreads) for ntt / intt"""
    maxn = 2048 if tier == 'quick' else 4096
    out = []
    skipped = []
    settings = ((1, False, 'other'), (2, True, 'src'), (1, False, 'src'), (3, True, 'null'))
    for c in ths:
        ns = set()
        if c <= 20:
            # a small constant may bound a stage count, a phase count, a column or block count
            for e in (c, c + 1):
                if (1 << e) <= maxn:
                    for nphase in (1, 2, 0):
                        for nblock, buf, dst in settings[:3]:
                            out.append((1 << e, 1 << e, 1, nphase, nblock, buf, dst, 1))
                else:
                    skipped.append(c)
            for ncols in (c - 1, c, c + 1, 2 * c + 1):
                for nphase in (1, 2, 3):
                    for nblock, buf, dst in ((1, False, 'other'), (2, True, 'src'), (c, False, 'src'), (c + 1, True, 'null')):
                        out.append((8, 8, ncols, nphase, nblock, buf, dst, 1))
            out.append((8, 8, 3, c, 1, False, 'other', 1))
            out.append((8, 8, 3, c + 1, 2, True, 'src', 1))
            continue
        p2 = pow2_at_least(c)
        for n in (p2 // 2, p2, 2 * p2):
            if 2 <= n <= maxn:
                ns.add(n)
        if p2 > maxn:
            skipped.append(c)
        for n in sorted(ns):
            for nphase in (3, 1, 2):
                for nblock, buf, dst in settings[:2] + settings[2:3]:
                    out.append((n, n, 1, nphase, nblock, buf, dst, 1))
        # the flat element count n*ncols crossing the threshold with a small transform
        for n in (256, 64, 16):
            k = c // n + 1
            if 1 <= k <= 96 and n * k <= 9000:
                for kk in (k - 1, k, k + 1):
                    if kk >= 1:
                        for nphase in (3, 2):
                            for nblock, buf, dst in ((1, False, 'other'), (1, False, 'src'), (2, True, 'src')):
                                out.append((n, n, kk, nphase, nblock, buf, dst, 1))
                break
        if c <= 96:
            for ncols in (c - 1, c, c + 1):
                for nphase in (2, 3):
                    for nblock, buf, dst in ((1, False, 'src'), (1, False, 'other'), (2, True, 'src')):
                        out.append((8, 8, ncols, nphase, nblock, buf, dst, 1))
        elif c <= 6000:
            # a column count / slice width: wide matrices with a tiny transform are cheap (cost ~ n^2 log n * ncols)
            for ncols in (c + 1, 2 * c + 1) if c <= 2000 else (c + 1,):
                for n in (2,):
                    for nphase in (2, 3):
                        for nblock, buf, dst in ((1, False, 'src'), (1, False, 'other'), (2, True, 'src')):
                            out.append((n, n, ncols, nphase, nblock, buf, dst, 1))
    return out, sorted(set(skipped))


def ext_extra(ths, tier='quick'):
    """(capN, N, Next, ncols, nphase, nblock, buf, nthreads, inplace)"""
    maxn = 1024 if tier == 'quick' else 4096
    out = []
    skipped = []
    for c in ths:
        if c <= 20:
            for e in (c, c + 1):
                if (1 << e) <= maxn:
                    for nphase in (1, 2, 3):
                        out.append((1 << e, 1 << e, 1 << e, 1, nphase, 1, False, 1, True))
                        if (2 << e) <= maxn:
                            out.append((1 << e, 1 << e, 2 << e, 1, nphase, 1, False, 1, False))
            for ncols in (c - 1, c, c + 1):
                for nphase in (1, 2, 3):
                    for nblock in (1, 2, c + 1):
                        out.append((4, 4, 8, ncols, nphase, nblock, False, 1, True))
            continue
        p2 = pow2_at_least(c)
        got = False
        for N in (p2 // 2, p2, 2 * p2, 4 * p2):
            if 2 <= N <= maxn:
                got = True
                for Next in (N, 2 * N):
                    if Next <= 2 * maxn:
                        for nphase, nblock, buf, inplace in ((3, 1, False, True), (2, 1, False, True), (3, 2, True, False)):
                            out.append((N, N, Next, 1, nphase, nblock, buf, 1, inplace))
        if not got or 4 * p2 > maxn:
            skipped.append(c)
        if c <= 96:
            for ncols in (c - 1, c, c + 1):
                for nphase in (2, 3):
                    out.append((4, 4, 8, ncols, nphase, 1, False, 1, True))
        elif c <= 6000:
            for ncols in (c + 1, 2 * c + 1) if c <= 2000 else (c + 1,):
                for N, Next, phases in ((2, 4, (2, 3)), (1, 2, (2,))):
                    for nphase in phases:
                        for nblock, buf, inplace in ((1, False, True), (1, True, False), (2, False, True)):
                            out.append((max(N, 2), N, Next, ncols, nphase, nblock, buf, 1, inplace))
    return out, sorted(set(skipped))


def sponge_lengths(ths, tier='quick'):
    maxlen = 20000 if tier == 'quick' else 600000
    out = set()
    skipped = []
    for c in ths:
        for k in (1, 8, 12):
            base = c * k
            if base + 9 <= maxlen:
                out |= {base - 1, base, base + 1, base + 2, base + 7, base + 8, base + 9}
            elif k == 1:
                skipped.append(c)
    return sorted(x for x in out if x >= 0), sorted(set(skipped))


def merkle_extra(ths, tier='quick'):
    """(rows, cols, dim, batch)"""
    out = []
    skipped = []
    for c in ths:
        if c > 5000:
            skipped.append(c)
            continue
        for cols in (c - 1, c, c + 1):
            for batch in (1, 2):
                if cols * batch <= 6000:
                    out.append((1, cols * batch, 1, batch))        # c-1, c, c+1 batches
                    out.append((2, cols * batch + 1, 1, batch))
            out.append((2, cols, 1, None))
            out.append((1, cols, 3, 4))
        # tall trees are cheap (the permutation is opaque): a constant may bound a row count or the width of a level
        r = pow2_at_least(c)
        for rows in (r // 2, r, 2 * r, 4 * r):
            if 1 <= rows <= (8192 if tier == 'quick' else 32768):
                out.append((rows, 1, 1, None))
                out.append((rows, 3, 1, None))
                out.append((rows, 5, 1, 2))
    return out, sorted(set(skipped))


def batch_sizes(ths, tier='quick'):
    """array lengths on both sides of a block length / chunk size (and of its multiples)"""
    maxlen = 12000 if tier == 'quick' else 40000
    out = set()
    skipped = []
    for c in ths:
        if c < 2:
            continue
        got = False
        for x in (c - 1, c, c + 1, c + 5, 2 * c - 1, 2 * c, 2 * c + 1):
            if 1 <= x <= maxlen:
                out.add(x)
                got = True
        if not got:
            skipped.append(c)
    return sorted(out), sorted(set(skipped))


def par_sizes(ths):
    out = set()
    for c in ths:
        if c <= (1 << 16):
            out |= {c - 1, c, c + 1, 2 * c, 2 * c + 1, 3 * c + 1}
    return sorted(x for x in out if x >= 0)
