"""C20, arithmetic clause: the device field type gl64_t (src/gl64_t.cuh) decided for all operands, for both instruction
variants (__CUDA_ARCH__ >= 700 and < 700).

Front end: front.cuda_module(arch) - the header goes through the host C++ front end with the CUDA qualifiers defined away;
every inline PTX statement survives verbatim as an inline-asm call and is given meaning by glv/ptx.py over the kernel-mode
domain (exact integer polynomials over 32-bit limb symbols, boxes, linear constraints).

Proof structure (modular, as the code is):
  reduce(uint32_t temp[4])  for ALL four 32-bit words:  val == t0 + 2^32 t1 + 2^64 t2 + 2^96 t3  (mod p), val < 2^64.
      Every carry / borrow bit of the chain is enumerated; the combinations in which the result is not congruent are shown
      empty by polyhedral emptiness (Fourier-Motzkin with integer tightening) over the words and the remaining quotients.
  mul(gl64_t), mul(uint32_t) with reduce(temp) replaced by exactly that contract: the mad chains are polynomial identities
      (sums split at their width with fresh quotient symbols); the one dropped carry is shown zero from 0 <= temp < 2^128.
  operator*=, sqr, operator* : mul followed by to() == reduce(): partition on the conditional move.
  operator+=, -=, cneg, operator-, reduce(): partition on the predicate.
A cell that is not discharged is refuted only with a concrete witness (exact evaluation), else ANALYSIS-INCOMPLETE."""
from . import front, kprove, kcheck
from .kernel import KV, KPtr, sym64, B32, const
from .poly import Poly, P, M64, M32

ARCHS = (700, 600)
REDUCE4 = 'gl64_t::reduce(unsigned int*)'


def site_of(mod, name):
    f, l = mod.fn_loc(name)
    return 'src/gl64_t.cuh:%s' % l      # the normalised copy is line-for-line the header


def reduce4_summary(K, st, args):
    """contract of reduce(uint32_t temp[4]) (proved separately for all words): val = fresh 64-bit value congruent to the
    128-bit integer held in temp[0..3]"""
    c = st.case.copy()
    st2 = st.fork(c)
    this, temp = args
    T = Poly()
    for i in range(4):
        t = K.tokv(c, K.resolve(c, K.load_cell(st2, KPtr(temp.obj, temp.off + 4 * i))))
        if t.hi >= M32 or t.lo < 0:
            raise kprove.Undecided('temp[%d] is not a 32-bit word at the call of reduce(temp)' % i)
        T = T + t.p * (1 << (32 * i))
    c.cons.append((T, '>=0'))
    c.cons.append((T - (1 << 128), '<0'))
    c.n += 1
    nm = 'v%d' % c.n
    v = sym64(c, nm, (B32, B32), 0)
    c.subst.append((nm + 'l', T - M32 * Poly.var(nm + 'h'), False))
    st2.mem[KPtr(this.obj, this.off)] = v
    return [(st2, None)]


def obligations():
    """(tag, signature, nargs, in_cells, out_cells, spec, kwargs, what)"""
    a = (0, 0, 'a', 'canon')
    b = (1, 0, 'b', 'canon')
    au = (0, 0, 'a', 'u64')
    bu = (1, 0, 'b', 'u64')
    O = []
    O.append(('reduce', 'gl64_t::reduce()', 1, [au], [(0, 0)], lambda A: A['a'], dict(post='canon'),
              'final reduction: any 64-bit value -> its canonical representative'))
    O.append(('add', 'gl64_t::operator+=(gl64_t const&)', 2, [a, b], [(0, 0)], lambda A: A['a'] + A['b'], dict(post='canon'), 'a += b'))
    O.append(('add:self', 'gl64_t::operator+=(gl64_t const&)', 2, [a], [(0, 0)], lambda A: A['a'] + A['a'], dict(post='canon', alias={1: 0}), 'a += a'))
    O.append(('sub', 'gl64_t::operator-=(gl64_t const&)', 2, [a, b], [(0, 0)], lambda A: A['a'] - A['b'], dict(post='canon'), 'a -= b'))
    O.append(('sub:self', 'gl64_t::operator-=(gl64_t const&)', 2, [a], [(0, 0)], lambda A: Poly(), dict(post='canon', alias={1: 0}), 'a -= a'))
    O.append(('cneg:1', 'gl64_t::cneg(bool)', 2, [a], [(0, 0)], lambda A: -A['a'], dict(post='canon', value_args={1: const(1, 32)}), 'cneg(true)'))
    O.append(('cneg:0', 'gl64_t::cneg(bool)', 2, [a], [(0, 0)], lambda A: A['a'], dict(post='canon', value_args={1: const(0, 32)}), 'cneg(false)'))
    O.append(('neg', 'gl64_t::operator-() const', 1, [a], [('ret', 0)], lambda A: -A['a'], dict(post='canon'), 'unary minus'))
    O.append(('reduce4', REDUCE4, 2, [(1, 0, 't0', 'u32'), (1, 4, 't1', 'u32'), (1, 8, 't2', 'u32'), (1, 12, 't3', 'u32')], [(0, 0)],
              lambda A: A['t0'] + A['t1'] * M32 + A['t2'] * M64 + A['t3'] * M64 * M32, dict(),
              'reduce(temp[4]) for all four words: 2^64 = 2^32-1, 2^96 = -1 folding'))
    S = dict(summ=True)
    O.append(('mul', 'gl64_t::mul(gl64_t const&)', 2, [au, bu], [(0, 0)], lambda A: A['a'] * A['b'], S, 'mul(b) for partially reduced operands'))
    O.append(('mul:self', 'gl64_t::mul(gl64_t const&)', 2, [au], [(0, 0)], lambda A: A['a'] * A['a'], dict(summ=True, alias={1: 0}), 'mul(*this)'))
    O.append(('mul_eq', 'gl64_t::operator*=(gl64_t const&)', 2, [au, bu], [(0, 0)], lambda A: A['a'] * A['b'], dict(summ=True, post='canon'), 'a *= b'))
    O.append(('sqr', 'gl64_t::sqr()', 1, [au], [(0, 0)], lambda A: A['a'] * A['a'], dict(summ=True, post='canon'), 'sqr()'))
    w = KV(Poly.var('w'), 0, M32 - 1, w=32)
    O.append(('mul32', 'gl64_t::mul(unsigned int)', 2, [au], [(0, 0)], lambda A: A['a'] * Poly.var('w'), dict(value_args={1: 'w32'}), 'mul(uint32_t)'))
    O.append(('mul32_eq', 'gl64_t::operator*=(unsigned int)', 2, [au], [(0, 0)], lambda A: A['a'] * Poly.var('w'),
              dict(post='canon', value_args={1: 'w32'}), 'a *= uint32_t'))
    return O


def w32(c):
    c.box['w'] = (0, M32 - 1)
    return KV(Poly.var('w'), 0, M32 - 1, w=32)


def run(rep, tier, seed=0):
    n_ok = 0
    n_asm = 0
    for arch in ARCHS:
        try:
            mod = front.cuda_module(arch)
        except front.FrontError as e:
            rep.incomplete('gpu:front/%d' % arch, 'ptx-arith', 'src/gl64_t.cuh', 'the device header did not go through the front end: %s' % str(e)[-300:])
            continue
        try:
            r4 = mod.find(REDUCE4)
        except KeyError:
            rep.incomplete('gpu:%d/reduce4' % arch, 'ptx-arith', 'src/gl64_t.cuh', 'gl64_t::reduce(uint32_t*) not found')
            continue
        for tag, sig, nargs, ins, outs, spec, kw, what in obligations():
            oid = 'gpu:%d/%s' % (arch, tag)
            try:
                name = mod.find(sig)
            except KeyError:
                rep.incomplete(oid, 'ptx-arith', 'src/gl64_t.cuh', '%s not found in the module' % sig)
                continue
            kw = dict(kw)
            es = {r4: reduce4_summary} if kw.pop('summ', False) else None
            va = kw.pop('value_args', None)
            if va:
                va = {i: (w32 if v == 'w32' else v) for i, v in va.items()}
            r = kprove.prove_cells(mod, name, nargs, ins, outs, [spec], dialect='ptx', use_int_summaries=False, extra_summaries=es,
                                   value_args=va, seed=seed, budget=20000, **kw)
            n_asm += len(r.asm)
            if kcheck.record(rep, oid, 'ptx-arith', site_of(mod, name), r, '%s [sm_%d variant]' % (what, arch // 10)):
                n_ok += 1
    rep.cov['gpu_functions_proved'] = n_ok
    rep.cov['gpu_asm_statements_interpreted'] = n_asm
    rep.floor('gpu arithmetic obligations (2 variants x %d)' % len(obligations()), n_ok, 2 * len(obligations()))
