"""x86-64 AT&T subset semantics for the inline-asm templates of the scalar field primitives, over the kernel-mode domain.

Mnemonics understood: xor r,r (zeroing) | test r,r + jz/jnz | mov (64-bit, 32-bit with zero extension) | add | sub | adc | cmovc | jnc <label>f |
mul/mulq | rol $32 | numeric labels.  Anything else is ANALYSIS-INCOMPLETE.  R-ASM facts (registers written vs outputs and
clobbers, early-clobber, memory operands) are collected for the lint in C01.
"""
import re
from .kernel import KV, const, wrap_add, wrap_sub, gsplit, Undecided, KPtr, Case
from .poly import Poly, C, M64, M32

R64 = ['rax', 'rbx', 'rcx', 'rdx', 'rsi', 'rdi', 'r8', 'r9', 'r10', 'r11', 'r12', 'r13', 'r14', 'r15']
R32 = {'eax': 'rax', 'ebx': 'rbx', 'ecx': 'rcx', 'edx': 'rdx', 'esi': 'rsi', 'edi': 'rdi', 'r8d': 'r8', 'r9d': 'r9', 'r10d': 'r10',
       'r11d': 'r11'}
CONS_REG = {'ax': 'rax', 'dx': 'rdx', 'bx': 'rbx', 'cx': 'rcx', 'si': 'rsi', 'di': 'rdi'}


def unescape(t):
    return t.replace('\\0A', '\n').replace('\\09', '\t').replace('$$', '\x01').replace('\\22', '"')


def parse(ins):
    tmpl, cons = ins.x['asm']
    tmpl = unescape(tmpl)
    cons = cons.split(',')
    return tmpl, cons


def lint(ins):
    """static facts of one asm statement (no values): written registers, clobbers, outputs, early-clobber, memory operands"""
    tmpl, cons = parse(ins)
    outs = [c for c in cons if c.startswith('=')]
    clob = {c[2:-1] for c in cons if c.startswith('~')}
    inputs = [c for c in cons if not c.startswith('=') and not c.startswith('~')]
    lines = [l.strip() for l in tmpl.split('\n') if l.strip()]
    written = set()
    read_after_first_out_write = False
    outreg = None
    m = re.match(r'=(&?)\{(\w+)\}', outs[0]) if outs else None
    early = bool(m and m.group(1))
    if m:
        outreg = CONS_REG.get(m.group(2), m.group(2))
    nout = len(outs)
    first_out_write = None
    last_input_read = -1
    for i, l in enumerate(lines):
        if re.match(r'^\d+:$', l):
            continue
        mn, *rest = l.split(None, 1)
        ops = [x.strip() for x in rest[0].split(',')] if rest else []

        def regname(o):
            if o.startswith('%'):
                r = o.lstrip('%')
                return R32.get(r, r)
            return None
        dsts = []
        srcs = []
        if mn in ('mov', 'add', 'sub', 'adc', 'cmovc', 'xor', 'rol', 'and', 'or'):
            dsts = [ops[-1]]
            srcs = ops[:-1] + ([ops[-1]] if mn not in ('mov', 'cmovc') else [])
        elif mn in ('mul', 'mulq', 'divq', 'div'):
            dsts = ['%rax', '%rdx']
            srcs = ops + ['%rax']
        for d in dsts:
            r = regname(d)
            if r:
                written.add(r)
            elif d.startswith('$') and d[1:].isdigit():
                k = int(d[1:])
                if k < nout:
                    if first_out_write is None:
                        first_out_write = i
                    if outreg:
                        written.add(outreg)
                else:
                    written.add('input-operand-%d' % k)
        for sr in srcs:
            if sr.startswith('$') and sr[1:].isdigit() and int(sr[1:]) >= nout:
                last_input_read = i
    return dict(written=written, clobbers=clob, outreg=outreg, early=early, inputs=inputs, outs=outs,
                needs_early=first_out_write is not None and last_input_read > first_out_write,
                mem_inputs=[c for c in inputs if 'm' in c], template=tmpl.replace('\x01', '$'))


def do_asm(K, st, ins):
    tmpl, cons = parse(ins)
    outs = [c for c in cons if c.startswith('=')]
    inputs = [c for c in cons if not c.startswith('=') and not c.startswith('~')]
    clob = {c[2:-1] for c in cons if c.startswith('~')}
    if len(outs) != 1:
        raise Undecided('asm with %d outputs' % len(outs))
    m = re.match(r'=&?\{(\w+)\}', outs[0])
    if not m:
        raise Undecided('asm output constraint ' + outs[0])
    outreg = CONS_REG[m.group(1)]
    ops = {0: ('reg', outreg)}
    free = [r for r in R64 if r not in clob and r != outreg and r not in ('rsi', 'rdi')]
    args = [K.val(st, a, t) for a, t in zip(ins.a[1:], ins.x['atys'])]
    if len(args) != len(inputs):
        raise Undecided('asm operand count')
    regs = {}
    for j, (cst, v) in enumerate(zip(inputs, args)):
        if cst == 'r':
            if not free:
                raise Undecided('asm register allocation')
            reg = free.pop()
            ops[1 + j] = ('reg', reg)
            regs[reg] = v
        elif cst == '*m':
            if not isinstance(v, KPtr):
                raise Undecided('asm memory operand')
            ops[1 + j] = ('mem', K.load_cell(st, v))
        else:
            raise Undecided('asm input constraint ' + cst)
    lines = [l.strip() for l in tmpl.split('\n') if l.strip()]

    def run(case, regs, cf, pc, zf=None):
        while pc < len(lines):
            l = lines[pc]
            pc += 1
            if re.match(r'^\d+:$', l):
                continue
            mn, *rest = l.split(None, 1)
            opsx = [x.strip() for x in rest[0].split(',')] if rest else []

            def rd(o):
                if o.startswith('$') and o[1:].isdigit():
                    e = ops[int(o[1:])]
                    if e[0] == 'reg':
                        if e[1] not in regs:
                            raise Undecided('asm reads register %s before it is written' % e[1])
                        return regs[e[1]]
                    return e[1]
                if o.startswith('\x01'):
                    return const(int(o[1:], 0) % M64)
                r = o.lstrip('%')
                if r in R32:
                    full = regs.get(R32[r])
                    if full is None:
                        raise Undecided('asm reads register %s before it is written' % r)
                    q, lo = gsplit(case, KV(full.p, full.lo, full.hi), 32)
                    return KV(lo.p, lo.lo, lo.hi)
                if r not in regs:
                    raise Undecided('asm reads register %s before it is written' % r)
                return regs[r]

            def wrname(o):
                if o.startswith('$') and o[1:].isdigit():
                    e = ops[int(o[1:])]
                    if e[0] != 'reg':
                        raise Undecided('asm writes a memory operand')
                    return e[1]
                r = o.lstrip('%')
                return R32.get(r, r)
            if mn == 'xor' and opsx[0] == opsx[1]:
                regs[wrname(opsx[1])] = const(0)
                cf = 0
                continue
            if mn == 'mov':
                v = rd(opsx[0])
                regs[wrname(opsx[1])] = KV(v.p, v.lo, v.hi)
                continue
            if mn in ('add', 'sub', 'adc'):
                a = rd(opsx[1])
                b = rd(opsx[0])
                if a.sh or b.sh:
                    raise Undecided('asm arithmetic on a shifted value')
                if mn == 'adc' and cf is None:
                    raise Undecided('adc after an instruction whose carry flag is not modelled')
                if mn == 'adc' and cf:
                    b = KV(b.p + 1, b.lo + 1, b.hi + 1)
                alts = (wrap_add if mn != 'sub' else wrap_sub)(case, a, b)
                res = []
                for cc, v, cy in alts:
                    r2 = dict(regs)
                    r2[wrname(opsx[1])] = v
                    res += run(cc, r2, cy, pc, None)
                return res
            if mn in ('test', 'testl', 'testq') and len(opsx) == 2 and opsx[0] == opsx[1]:
                # test r,r: ZF = (r == 0) for the register (or 32-bit sub-register) named; CF = 0.  Partition on the value.
                v = rd(opsx[0])
                res = []
                from .kernel import decide_gt
                for cc, gt in decide_gt(case, KV(v.p, v.lo, v.hi), const(0)):
                    res += run(cc, dict(regs), 0, pc, not gt)
                return res
            if mn in ('jz', 'je', 'jnz', 'jne'):
                if zf is None:
                    raise Undecided('%s after an instruction whose zero flag is not modelled' % mn)
                if zf == (mn in ('jz', 'je')):
                    lab = opsx[0].rstrip('fb') + ':'
                    if lab not in lines[pc:]:
                        raise Undecided('asm backward / missing label')
                    pc = lines.index(lab, pc) + 1
                continue
            if mn in ('cmovc', 'jnc') and cf is None:
                raise Undecided('%s after an instruction whose carry flag is not modelled' % mn)
            if mn == 'cmovc':
                if cf:
                    regs[wrname(opsx[1])] = rd(opsx[0])
                continue
            if mn == 'jnc':
                if not cf:
                    lab = opsx[0].rstrip('fb') + ':'
                    if lab not in lines[pc:]:
                        raise Undecided('asm backward / missing label')
                    pc = lines.index(lab, pc) + 1
                continue
            if mn in ('mul', 'mulq'):
                a = regs['rax']
                b = rd(opsx[0])
                lo = case.fresh('plo', 0, M64 - 1)
                HL = case.fresh('pHL', 0, M32 - 1)
                HH = case.fresh('pHH', 0, M32 - 1)
                prod = a.p * b.p
                case.defs.append(('limbs', prod, [lo, HL, HH], [(0, 64), (64, 32), (96, 32)]))
                hi = KV(M32 * Poly.var(HH) + Poly.var(HL), 0, min(M64 - 2, (a.hi * b.hi) >> 64))
                case.cache[(hi.p.key(), 32)] = (KV(Poly.var(HH), 0, M32 - 1, w=32), KV(Poly.var(HL), 0, M32 - 1, w=32))
                case.subst.append((lo, prod - M64 * hi.p, True))
                regs['rax'] = KV(Poly.var(lo), 0, M64 - 1)
                regs['rdx'] = hi
                cf = None
                continue
            if mn == 'rol' and opsx[0] == '\x0132':
                v = rd(opsx[1])
                H, L = gsplit(case, KV(v.p, v.lo, v.hi), 32)
                regs[wrname(opsx[1])] = KV(M32 * L.p + H.p, M32 * L.lo + H.lo, M32 * L.hi + H.hi)
                cf = None
                continue
            raise Undecided('x86 instruction not modelled: ' + l.replace('\x01', '$'))
        return [(case, regs)]
    res = run(st.case.copy(), regs, 0, 0)
    alts = []
    for cc, rg in res:
        if outreg not in rg:
            raise Undecided('asm never writes its output register')
        alts.append((cc, rg[outreg]))
    K.asm_info.append(lint(ins))
    return K.setv(st, ins.dst, alts)
