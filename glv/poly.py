"""Value domains shared by the interpreters.

Poly  - multivariate polynomial with integer coefficients over named symbols (shape symbols, input atoms).
        Used both for symbolic integers (addresses, indices: coefficients over Z) and, reduced with
        .modp(), as the residue normal form of field values (coefficients in [0,p)).
FV    - abstract field element: residue normal form + representation typestate (+ shifted flag).
"""
P = (1 << 64) - (1 << 32) + 1
M64 = 1 << 64
M32 = 1 << 32
MSB = 1 << 63
SMALL_MAX = 0xFFFFFFFF00000000


class Poly:
    __slots__ = ('d', '_k', '_h')

    def __init__(s, d=None, clean=False):
        if d is None:
            s.d = {}
        elif clean:
            s.d = d
        else:
            s.d = {k: v for k, v in d.items() if v != 0}
        s._k = None
        s._h = None

    @staticmethod
    def const(c):
        return Poly({(): c} if c else {}, True)

    @staticmethod
    def var(v):
        return Poly({((v, 1),): 1}, True)

    def key(s):
        if s._k is None:
            s._k = tuple(sorted(s.d.items()))
        return s._k

    def __hash__(s):
        if s._h is None:
            s._h = hash(s.key())
        return s._h

    def __eq__(a, b):
        if isinstance(b, int):
            return a.isconst() and a.cval() == b
        return isinstance(b, Poly) and a.d == b.d

    def __ne__(a, b):
        return not a.__eq__(b)

    def isconst(s):
        return not s.d or (len(s.d) == 1 and () in s.d)

    def cval(s):
        if not s.isconst():
            raise ValueError('not constant: %s' % s)
        return s.d.get((), 0)

    def __add__(a, b):
        if isinstance(b, int):
            if b == 0:
                return a
            d = dict(a.d)
            v = d.get((), 0) + b
            if v:
                d[()] = v
            else:
                d.pop((), None)
            return Poly(d, True)
        d = dict(a.d)
        for k, v in b.d.items():
            nv = d.get(k, 0) + v
            if nv:
                d[k] = nv
            else:
                del d[k]
        return Poly(d, True)

    __radd__ = __add__

    def __neg__(a):
        return Poly({k: -v for k, v in a.d.items()}, True)

    def __sub__(a, b):
        if isinstance(b, int):
            return a + (-b)
        d = dict(a.d)
        for k, v in b.d.items():
            nv = d.get(k, 0) - v
            if nv:
                d[k] = nv
            else:
                del d[k]
        return Poly(d, True)

    def __rsub__(a, b):
        return (-a) + b

    def __mul__(a, b):
        if isinstance(b, int):
            if b == 0:
                return Poly()
            if b == 1:
                return a
            return Poly({k: v * b for k, v in a.d.items()}, True)
        if len(b.d) == 1 and () in b.d:
            return a * b.d[()]
        if len(a.d) == 1 and () in a.d:
            return b * a.d[()]
        d = {}
        for k1, v1 in a.d.items():
            for k2, v2 in b.d.items():
                if not k1:
                    k = k2
                elif not k2:
                    k = k1
                else:
                    m = dict(k1)
                    for x, e in k2:
                        m[x] = m.get(x, 0) + e
                    k = tuple(sorted(m.items()))
                nv = d.get(k, 0) + v1 * v2
                if nv:
                    d[k] = nv
                else:
                    del d[k]
        return Poly(d, True)

    __rmul__ = __mul__

    def modp(a):
        d = {}
        for k, v in a.d.items():
            v %= P
            if v:
                d[k] = v
        return Poly(d, True)

    def vars(a):
        return {x for k in a.d for x, _ in k}

    def degree(a):
        return max([sum(e for _, e in k) for k in a.d] or [0])

    def subst(a, mp):
        """substitute variables by polynomials (mp: var -> Poly)"""
        r = Poly()
        for k, c in a.d.items():
            t = Poly.const(c)
            for x, e in k:
                f = mp.get(x)
                if f is None:
                    f = Poly.var(x)
                for _ in range(e):
                    t = t * f
            r = r + t
        return r

    def ev(a, asg):
        s = 0
        for k, c in a.d.items():
            t = c
            for x, e in k:
                t *= asg[x] ** e
            s += t
        return s

    def rng(a, box):
        """interval of the polynomial over a box of non-negative symbol ranges"""
        lo = hi = 0
        for k, c in a.d.items():
            ml = mh = 1
            for x, e in k:
                l, h = box[x]
                ml *= l ** e
                mh *= h ** e
            if c >= 0:
                lo += c * ml
                hi += c * mh
            else:
                lo += c * mh
                hi += c * ml
        return lo, hi

    def lin_div(a, n):
        """exact division by an integer if every coefficient is divisible, else None"""
        if all(v % n == 0 for v in a.d.values()):
            return Poly({k: v // n for k, v in a.d.items()}, True)
        return None

    def __repr__(a):
        if not a.d:
            return '0'
        parts = []
        for k, c in sorted(a.d.items()):
            m = '*'.join(('%s^%d' % (x, e)) if e > 1 else x for x, e in k)
            if not m:
                parts.append(str(c))
            elif c == 1:
                parts.append(m)
            else:
                parts.append('%d*%s' % (c, m))
        return ' + '.join(parts)


def C(k):
    return Poly.const(k)


def as_poly(v):
    if isinstance(v, Poly):
        return v
    if isinstance(v, int):
        return Poly.const(v)
    raise TypeError('as_poly %r' % (v,))


# ---- typestates of a 64-bit representation
TS_ORDER = ['zero', 'bits8', 'bits32', 'canon', 'small', 'u64']
TS_MAX = {'zero': 0, 'bits8': 255, 'bits32': M32 - 1, 'canon': P - 1, 'small': SMALL_MAX, 'u64': M64 - 1}


def ts_of_const(v):
    for t in TS_ORDER:
        if v <= TS_MAX[t]:
            return t
    return 'u64'


def ts_le(a, b):
    return TS_ORDER.index(a) <= TS_ORDER.index(b)


def ts_join(a, b):
    return a if TS_ORDER.index(a) >= TS_ORDER.index(b) else b


class FV:
    """abstract field element"""
    __slots__ = ('nf', 'ts', 'sh', 'rep')

    def __init__(s, nf, ts='u64', sh=False, rep=None):
        s.nf = nf      # Poly, coefficients mod p
        s.ts = ts      # typestate of the 64-bit representation
        s.sh = sh      # register holds value xor 2^63
        s.rep = rep    # concrete representation if known (int)

    @staticmethod
    def const(v):
        v %= M64
        return FV(Poly.const(v % P), ts_of_const(v), False, v)

    @staticmethod
    def atom(name, ts='u64'):
        return FV(Poly.var(name), ts)

    def key(s):
        return s.nf.key()

    def __repr__(s):
        return 'FV(%s%s:%s)' % ('s:' if s.sh else '', s.ts, s.nf)


# ---- opaque AC-normalised power products for high-degree residue forms (Poseidon)
class PPTable:
    """hash-consing of linear forms and power products: x*(x*x)*((x*x)*(x*x)) and any other
    multiplication chain for x^7 normalise to the same atom"""

    def __init__(s):
        s.fk = {}      # key of linear form -> id
        s.pps = {}     # atom name -> {factor id: exp}

    def fkey(s, p):
        k = p.key()
        i = s.fk.get(k)
        if i is None:
            i = 'L%d' % len(s.fk)
            s.fk[k] = i
        return i

    def as_pp(s, p):
        if len(p.d) == 1:
            (k, c), = p.d.items()
            if len(k) == 1 and k[0][1] == 1 and k[0][0] in s.pps:
                return c, dict(s.pps[k[0][0]])
        return 1, {s.fkey(p): 1}

    def mul(s, x, y):
        """x, y: Poly mod p -> Poly mod p"""
        if x.isconst() or y.isconst():
            return (x * y).modp()
        c1, m1 = s.as_pp(x)
        c2, m2 = s.as_pp(y)
        m = dict(m1)
        for f, e in m2.items():
            m[f] = m.get(f, 0) + e
        name = 'PP{' + ','.join('%s^%d' % (f, e) for f, e in sorted(m.items())) + '}'
        s.pps[name] = m
        return Poly({((name, 1),): (c1 * c2) % P}, False)
