"""C13 / C14: dot / sparse / dense 12-wide matrix kernels against the matrix product mod p."""
import re
from . import front, contracts, harness
from .interp import Incomplete, Sink
from .ir import IRError
from .poly import Poly, FV, C
from .wrapcheck import site_of, sink_site


def A(reg, l):
    return Poly.var('%s[%d]' % (reg, l))


def spec_for(base, W, names):
    """base: function base name, W lanes, names: parameter names -> (writes, ret, reads, preconditions, description)"""
    H = W // 4
    if base.startswith('spmv'):
        c, a0, a1, a2, b = names
        w = {}
        for l in range(W):
            w[(c, 8 * l)] = sum((A(a, l) * A(b, 4 * j + l % 4) for j, a in enumerate((a0, a1, a2))), C(0)).modp()
        return w, None, {b: 12}, 'c[i] = sum_j a_j[i]*b[4j+i]'
    if base.startswith('dot'):
        if W == 4:
            a0, a1, a2, b = names
            r = C(0)
            for l in range(4):
                for j, a in enumerate((a0, a1, a2)):
                    r = r + A(a, l) * A(b, 4 * j + l)
            return {}, r.modp(), {b: 12}, 'sum_i sum_j a_j[i]*b[4j+i]'
        c, a0, a1, a2, b = names
        w = {}
        for h in range(H):
            r = C(0)
            for l in range(4):
                for j, a in enumerate((a0, a1, a2)):
                    r = r + A(a, 4 * h + l) * A(b, 4 * j + l)
            w[(c, 8 * h)] = r.modp()
        return w, None, {b: 12}, 'c[h] = sum_i sum_j a_j[4h+i]*b[4j+i] per interleaved state h'
    if re.match(r'mmult_avx(512)?_4x12', base):
        o, a0, a1, a2, M = names
        w = {}
        regs = (a0, a1, a2)
        for h in range(H):
            for i in range(4):
                r = C(0)
                for k in range(12):
                    r = r + A(M, 12 * i + k) * A(regs[k // 4], 4 * h + k % 4)
                w[(o, 8 * (4 * h + i))] = r.modp()
        return w, None, {M: 48}, 'b[i] = sum_k M[12i+k]*a[k] (4x12 block, per interleaved state)'
    if re.match(r'mmult_avx(512)?(_a|_8)?$', base):
        a0, a1, a2, M = names
        regs = (a0, a1, a2)
        w = {}
        for m in range(3):
            for h in range(H):
                for i in range(4):
                    r = C(0)
                    for k in range(12):
                        r = r + A(M, 48 * m + 12 * i + k) * A(regs[k // 4], 4 * h + k % 4)
                    w[(regs[m], 8 * (4 * h + i))] = r.modp()
        return w, None, {M: 144}, 'out[r] = sum_k M[12r+k]*a[k] (12x12, per interleaved state)'
    raise Incomplete('no matrix specification for ' + base)


def run_family(rep, cfg, pat, floor, prop):
    mod = front.module(cfg)
    names = mod.find_re(pat)
    rep.floor('matrix kernels[%s]' % cfg, len(names), floor)
    for n in names:
        dem = mod.dem[n]
        base = re.match(r'Goldilocks::(\w+)\(', dem).group(1)
        W = 8 if '512' in base else 4
        site = site_of(mod, n)
        tag = '%s/%s' % (cfg, dem)
        is8 = base.endswith('_8')
        ctx = contracts.Ctx()
        summ, _ = contracts.wrapper_summaries(mod, ctx)
        contracted = n in summ
        summ.pop(n, None)
        try:
            ps = harness.describe(mod, n)
            pn = [p.name for p in ps]
            coef = pn[-1]
            exp_w, exp_ret, coefext, desc = spec_for(base, W, pn)
            ext = {coef: 8 * coefext[coef]}
            if base.startswith('dot_avx512'):
                ext[pn[0]] = 16
            opts = {'atom_ts': (lambda reg, idx, c_=coef: 'bits8' if (is8 and reg.name == c_) else 'u64')}
            if contracted:
                # the 8-bit spmv kernels contain raw 64-bit adds: proved in kernel mode (C02/C11 contracts); here only the
                # contract (used as a summary by the callers) is compared with the matrix specification
                I = harness.Interp(mod, {}, opts)
                eff = None
                h = contracts.make_dot8_summary([c for c in contracts.DOT8 if c['W'] == W][0], ctx)
                from .interp import Region, Ptr
                regs = [Region(p.name, 'param', extent=(8 * W if i < 4 else 96), elem='field') for i, p in enumerate(ps)]
                I.stack.append((n, None))
                h(I, [Ptr(r, 0) for r in regs], None)
                got = {(r.name, o): I.mem[(r, o)][0].nf for r, o, sz in I.writes}
                ret = None
                reads = {(r.name, o) for r, o, sz in I.reads}
                viol = []
            else:
                eff = harness.run_routine(mod, n, summ, opts=opts, extents=ext)
                got = {}
                for k, v in eff.writes.items():
                    v = FV.const(v) if isinstance(v, int) else v
                    got[k] = v.nf
                ret = eff.ret
                reads = eff.reads
                viol = ctx.violations
        except (Incomplete, IRError) as e:
            if 'outside a contracted kernel' in str(e) and not contracted:
                kernel_fallback(rep, cfg, dem, base, W, ps, exp_w, exp_ret, coef, coefext, is8, tag, site)
            else:
                rep.incomplete('value:' + tag, 'matrix-value', site, str(e))
            continue
        except Sink as e:
            rep.refute('safety:' + tag, 'matrix-safety', sink_site(e, site), str(e))
            continue
        bad = []
        for k in sorted(set(got) | set(exp_w), key=str):
            g, e = got.get(k), exp_w.get(k)
            if g is None:
                bad.append('lane %s+%s not written' % k)
            elif e is None:
                bad.append('%s+%s written but not part of the result' % k)
            elif g != e:
                bad.append('%s+%s holds %s, specification %s' % (k[0], k[1], str(g)[:150], str(e)[:150]))
        if exp_ret is not None:
            r = ret.nf if isinstance(ret, FV) else None
            if r is None or r != exp_ret:
                bad.append('returned value %s, specification %s' % (str(r)[:150], str(exp_ret)[:150]))
        if bad:
            rep.refute('value:' + tag, 'matrix-value', site, '; '.join(bad[:2]) + (' (+%d more)' % (len(bad) - 2) if len(bad) > 2 else ''))
        else:
            rep.ok('value:' + tag, 'matrix-value', site, desc + (' [contract used by callers]' if contracted else ''))
            rep.sample(dict(config=cfg, function=dem, site=site, spec=desc,
                            lane0=str(next(iter(exp_w.values())) if exp_w else exp_ret)[:200]))
        # in-place hypotheses: the output register is also one of the (read-only) state registers.  Every kernel of the pinned tree
        # computes into locals and stores its output last, and the permutation code updates state registers in place; the
        # hypotheses are claimed for the signatures of the pinned tree only (all of them hold there).
        if not contracted and not bad and harness.is_pinned(dem):
            vregs = [p for p in ps if re.match(r'V\d( const)?\s*&$', p.dty)]
            outs_ = [p for p in vregs if 'const' not in p.dty]
            ins_ = [p for p in vregs if 'const' in p.dty]
            for o_ in outs_:
                for i_ in ins_:
                    al = {i_.name: o_.name}
                    atag = '%s alias=%s=%s' % (tag, i_.name, o_.name)
                    try:
                        pn2 = [al.get(x, x) for x in pn]
                        ew2, er2, _ce, _d = spec_for(base, W, pn2)
                        ctx2 = contracts.Ctx()
                        summ2, _ = contracts.wrapper_summaries(mod, ctx2)
                        summ2.pop(n, None)
                        eff2 = harness.run_routine(mod, n, summ2, opts=opts, extents=ext, alias=al)
                        got2 = {k: (FV.const(v) if isinstance(v, int) else v).nf for k, v in eff2.writes.items()}
                        bad2 = ['%s+%s holds %s, specification %s' % (k[0], k[1], str(got2.get(k))[:120], str(e)[:120])
                                for k, e in sorted(ew2.items(), key=str) if got2.get(k) != e]
                        if bad2:
                            rep.refute('value:' + atag, 'matrix-value', site, 'with the output register %s also passed as %s: %s' % (
                                o_.name, i_.name, '; '.join(bad2[:2])))
                        else:
                            rep.ok('value:' + atag, 'matrix-value', site, desc + ' [output register aliased with %s]' % i_.name)
                    except (Incomplete, IRError) as e:
                        rep.note('in-place hypothesis %s not decided: %s' % (atag, str(e)[:150]))
                    except Sink as e:
                        rep.refute('safety:' + atag, 'matrix-safety', sink_site(e, site), str(e))
        # footprint: coefficient reads inside the declared array, registers only
        allowed = set()
        for p in ps:
            allowed |= {(p.name, 8 * i) for i in range(coefext.get(p.name, W))}
        extra = sorted((k for k in reads if k not in allowed), key=str)
        if extra:
            rep.refute('reads:' + tag, 'matrix-footprint', site, 'reads outside the declared extents: %s' % extra[:4])
        else:
            rep.ok('reads:' + tag, 'matrix-footprint', site, '%d cells read' % len(reads))
        if not contracted:
            if viol:
                seen = {}
                for v in viol:
                    seen.setdefault((v['callee'], v['operand'], v['detail'], tuple(v['loc'][:1])), []).append(v['lane'])
                for (callee, opnd, detail, loc), lanes in seen.items():
                    l = loc[0] if loc else (None, None)
                    rep.refute('pre:%s:%s:%s:%s' % (tag, callee.split('(')[0], opnd, l[1]), 'callsite-precondition',
                               '%s:%s' % (front.rel(l[0]), l[1]),
                               'call of %s: operand %s has %s (lanes %s)' % (callee.split('(')[0], opnd, detail, sorted(set(lanes))))
            else:
                rep.ok('pre:' + tag, 'callsite-precondition', site, '%d kernel call sites, all operands within the callee contracts' % len(ctx.sites))


def kernel_matrix_summaries(smod, cfg, skip_dem):
    """kernel-mode summaries of the sibling matrix kernels (each an obligation of this family on its own): every output lane
    is a fresh 64-bit value congruent to its matrix specification over the actual operand lanes; 8-bit coefficient
    preconditions are checked at the call"""
    from . import kprove
    from .kernel import KPtr, sym64, BOXES, Undecided as KU
    from .poly import M32

    def make(n, dem):
        base = re.match(r'Goldilocks::(\w+)\(', dem).group(1)
        W = 8 if '512' in base else 4
        is8 = base.endswith('_8')
        ps = harness.describe(smod, n)
        pn = [p.name for p in ps]
        exp_w, exp_ret, coefext, desc = spec_for(base, W, pn)
        if exp_ret is not None:
            return None
        pos = {p.name: i for i, p in enumerate(ps)}

        def h(K, st, args, viol=None):
            cc = st.case.copy()
            st2 = st.fork(cc)
            vals = {}

            def atom(a):
                if a not in vals:
                    m = re.match(r'^(.+)\[(\d+)\]$', a)
                    if not m or m.group(1) not in pos:
                        raise KU('matrix summary: operand %s' % a)
                    ptr = args[pos[m.group(1)]]
                    if not isinstance(ptr, KPtr):
                        raise KU('matrix kernel called with a non-pointer operand')
                    v = K.tokv(cc, K.resolve(cc, K.load_cell(st2, KPtr(ptr.obj, ptr.off + 8 * int(m.group(2))))))
                    if v.sh:
                        raise KU('matrix kernel operand carried as shifted')
                    if is8 and m.group(1) == pn[-1]:
                        lo, hi = cc.bound(v.p, v.lo, v.hi)
                        if hi > 255 and h.viol is not None:
                            h.viol.append((dem, 'coefficient %s may reach %d, the 8-bit kernel wants < 256' % (a, hi)))
                    vals[a] = v.p
                return vals[a]
            news = {}
            for (reg, off), sp in sorted(exp_w.items(), key=str):
                T = sp.subst({a: atom(a) for a in sp.vars()})
                cc.n += 1
                nm_ = 'm%d' % cc.n
                v = sym64(cc, nm_, BOXES['u64'][0], 0)
                cc.subst.append((nm_ + 'l', T - M32 * Poly.var(nm_ + 'h'), False))
                news[(reg, off)] = v
            for (reg, off), v in news.items():
                ptr = args[pos[reg]]
                st2.mem[KPtr(ptr.obj, ptr.off + off)] = v
            return [(st2, None)]
        h.viol = None
        return h

    def build(viol):
        S = {}
        for n in smod.find_re(r'^Goldilocks::(spmv|mmult)_avx(512)?(_4x12)?\w*\('):
            d = smod.dem[n]
            if d == skip_dem or not harness.is_pinned(d):
                continue
            try:
                hh = make(n, d)
            except Exception:
                hh = None
            if hh is not None:
                hh.viol = viol
                S[n] = hh
        return S
    return build


def kernel_fallback(rep, cfg, dem, base, W, ps, exp_w, exp_ret, coef, coefext, is8, tag, site):
    """the routine does raw integer arithmetic on lane values (a hand-written horizontal sum): analysed on exact integers
    with every lane tracked; the lane kernels and scalar primitives it calls are replaced by their contracts"""
    from . import kprove, kcheck
    from .poly import M32
    smod = front.module(cfg, sroa=True)
    try:
        name = smod.find(dem)
    except KeyError:
        rep.incomplete('value:' + tag, 'matrix-value', site, 'routine not found in the SROA module')
        return
    arg_cells = []
    sym = {}
    for i, p_ in enumerate(ps):
        cells = []
        dt = p_.dty
        if p_.name == coef:
            n = coefext[coef]
            ts = 'bits8' if is8 else 'u64'
        elif re.match(r'V\d', dt):
            n = W
            ts = 'u64'
        elif dt.startswith('E'):
            n = max([off // 8 + 1 for (r_, off) in exp_w if r_ == p_.name] or [1])
            ts = 'u64'
        else:
            rep.incomplete('value:' + tag, 'matrix-value', site, 'parameter %s of type %s in the kernel-mode fallback' % (p_.name, dt))
            return
        for k in range(n):
            nm = '%s_%d_' % (p_.name.replace('_', ''), k)
            sym['%s[%d]' % (p_.name, k)] = Poly.var(nm + 'h') * M32 + Poly.var(nm + 'l')
            cells.append((8 * k, nm, ts))
        arg_cells.append(cells)
    idx = {p_.name: i for i, p_ in enumerate(ps)}

    def conv(poly):
        return poly.subst({a: sym[a] for a in poly.vars() if a in sym})
    out_cells = [(idx[r_], off, conv(sp)) for (r_, off), sp in sorted(exp_w.items(), key=str)]
    r = None
    try:
        with kprove.time_limit(int(__import__("os").environ.get("GLV_KLIMIT", "60"))):
            r = kprove.prove_routine_all_lanes(smod, name, arg_cells, out_cells, conv(exp_ret) if exp_ret is not None else None, sym, W=W,
                                               extra_summaries=kernel_matrix_summaries(smod, cfg, dem))
    except kprove.TimeBudget:
        r = None
    except kprove.Undecided as e:
        rep.incomplete('value:' + tag, 'matrix-value-kernel', site, 'raw integer arithmetic on lane values: %s' % e)
        return
    if r is None and exp_ret is None:
        # case splits of element-wise operations multiply across the lanes: follow one output lane at a time (sound when no
        # lane-crossing operation comes after the element-wise ones - an untracked lane that is needed ends the attempt)
        try:
            with kprove.time_limit(180):
                for l in range(W):
                    oc = [(ai, off, sp) for ai, off, sp in out_cells if off == 8 * l]
                    rl = kprove.prove_routine_all_lanes(smod, name, arg_cells, oc, None, sym, W=W,
                                                        extra_summaries=kernel_matrix_summaries(smod, cfg, dem), focus=l)
                    if r is None:
                        r = rl
                    else:
                        r.cells += rl.cells
                        r.failures += rl.failures
                        r.undecided += rl.undecided
                        r.viol += rl.viol
                        r.max_out = max(r.max_out, rl.max_out)
                    if rl.failures:
                        break
        except kprove.TimeBudget as e:
            rep.incomplete('value:' + tag, 'matrix-value-kernel', site, 'raw integer arithmetic on lane values: %s' % e)
            return
        except kprove.Undecided as e:
            rep.incomplete('value:' + tag, 'matrix-value-kernel', site, 'raw integer arithmetic on lane values (one lane at a time): %s' % e)
            return
    if r is None:
        rep.incomplete('value:' + tag, 'matrix-value-kernel', site, 'raw integer arithmetic on lane values: time budget exhausted')
        return
    kcheck.record(rep, 'value:' + tag, 'matrix-value-kernel', site, r,
                  'raw integer arithmetic on lane values: exact-integer analysis with all lanes tracked, callees by contract')


def matrix_summaries(mod, pat):
    """wrapper-mode summaries of the dot / sparse / dense matrix kernels from their matrix specification (the family check
    discharges that specification for each kernel): used by a caller whose analysis cannot follow a kernel's body"""
    S = {}
    for n in mod.find_re(pat):
        dem = mod.dem[n]
        base = re.match(r'Goldilocks::(\w+)\(', dem).group(1)
        W = 8 if '512' in base else 4
        try:
            ps = harness.describe(mod, n)
            pn = [p_.name for p_ in ps]
            exp_w, exp_ret, coefext, desc = spec_for(base, W, pn)
        except Incomplete:
            continue

        def h(I, args, ins, ps=ps, pn=pn, exp_w=exp_w, exp_ret=exp_ret, coefext=coefext, W=W):
            mp = {}
            for p_, a in zip(ps, args):
                ncell = coefext.get(p_.name)
                if ncell is None:
                    ncell = W if re.match(r'V\d', p_.dty) else 0
                for k in range(ncell):
                    v = contracts.to_fv(I.load_cell(a.add(8 * k), 8))
                    mp['%s[%d]' % (p_.name, k)] = v.nf
            argof = dict(zip(pn, args))

            def ev(poly):
                return poly.subst({x: mp[x] for x in poly.vars() if x in mp}).modp()
            vals = {(r_, off): ev(sp) for (r_, off), sp in exp_w.items()}
            for (r_, off), nf in vals.items():
                I.store_cell(argof[r_].add(off), FV(nf, 'u64'), 8)
            if exp_ret is not None:
                return FV(ev(exp_ret), 'u64')
            return None
        S[n] = h
    return S
