"""PTX subset semantics for the inline-asm statements of gl64_t.cuh over the kernel-mode domain (C20).

Understood: add/addc/sub/subc (.cc, u32/u64), mul.lo/mul.hi.u32, mad.lo(.cc)/madc.hi(.cc).u32, setp.eq/ne (u32/s32),
selp.u64, mov.b64 (scalar and {lo,hi} packing), predication @%p / @!%p, .reg.pred declarations and braces, trap.
Carries are not partitioned: a sum is split exactly at its width (`gsplit`: fresh bounded quotient symbol + definitional
constraints), so multiword chains stay polynomial identities; only predicates (setp) partition the abstract state.
Predicate registers and the carry flag live in the abstract state (they persist across asm statements, as in PTX)."""
import re
from .kernel import KV, const, gsplit, Undecided, KPtr, decide_gt
from .poly import Poly, C, M64, M32

CCKEY = KPtr('ptx:cc', 0)


def predkey(name):
    return KPtr('ptx:pred:' + name, 0)


def parse_operands(s):
    out = []
    cur = ''
    d = 0
    for ch in s:
        if ch == '{':
            d += 1
        elif ch == '}':
            d -= 1
        if ch == ',' and d == 0:
            out.append(cur.strip())
            cur = ''
        else:
            cur += ch
    if cur.strip():
        out.append(cur.strip())
    return out


def do_asm(K, st, ins):
    tmpl, cons = ins.x['asm']
    tmpl = tmpl.replace('\\0A', '\n').replace('\\09', ' ').replace('$$', '\x01').replace('$(', '{').replace('$)', '}')
    cl = cons.split(',')
    outs = [c for c in cl if c.startswith('=')]
    inputs = [c for c in cl if not c.startswith('=') and not c.startswith('~')]
    nout = len(outs)
    args = [K.val(st, a, t) for a, t in zip(ins.a[1:], ins.x['atys'])]
    if len(args) != len(inputs):
        raise Undecided('PTX asm operand count')
    rty = ins.ty
    if nout == 0:
        widths = []
    elif nout == 1:
        widths = [rty[1] if rty[0] == 'i' else 64]
    else:
        widths = [f[1] for f in rty[1]]
    regs = {}
    k = nout
    for cst, v, t in zip(inputs, args, ins.x['atys']):
        if cst.isdigit():
            regs[int(cst)] = v            # tied input: initial value of a read-write operand
        else:
            regs[k] = v
            k += 1
    stmts = [x.strip() for x in tmpl.replace('\n', ' ').split(';') if x.strip()]

    def run(st, regs, pc):
        """-> [(state, regs)]"""
        while pc < len(stmts):
            s_ = stmts[pc]
            pc += 1
            while s_.startswith('{') or s_.startswith('}'):
                s_ = s_[1:].strip()
            if not s_ or s_.startswith('.reg'):
                continue
            guard = None
            m = re.match(r'^@(!?)%(\w+)\s+(.*)$', s_)
            if m:
                guard = (m.group(2), m.group(1) == '!')
                s_ = m.group(3)
            parts = s_.split(None, 1)
            opc = parts[0]
            ops = parse_operands(parts[1]) if len(parts) > 1 else []
            c = st.case

            def rd(o, w):
                o = o.strip()
                if o.startswith('$'):
                    i = int(o[1:])
                    if i not in regs:
                        raise Undecided('PTX operand $%d read before it is written' % i)
                    v = regs[i]
                    if isinstance(v, bool):
                        v = const(int(v), w)
                    v = K.tokv(c, K.resolve(c, v)) if not isinstance(v, KV) else v
                    return KV(v.p, v.lo, v.hi, 0, None, w)
                if re.match(r'^-?\d+$', o) or o.startswith('0x'):
                    return const(int(o, 0) % (1 << w), w)
                raise Undecided('PTX operand ' + o)

            def active():
                """None = unconditional; else the truth of the guard"""
                if guard is None:
                    return True
                pv = st.mem.get(predkey(guard[0]))
                if not isinstance(pv, bool):
                    raise Undecided('PTX guard %%%s is not decided' % guard[0])
                return (not pv) if guard[1] else pv
            base = opc.split('.')[0]
            suf = opc.split('.')[1:]
            w = 64 if ('u64' in suf or 'b64' in suf or 's64' in suf) else 32
            M = 1 << w
            if base in ('add', 'addc', 'sub', 'subc', 'mad', 'madc', 'mul', 'mov', 'selp'):
                act = active()
                d = ops[0].strip()
                di = int(d[1:]) if d.startswith('$') else None
                if di is None:
                    raise Undecided('PTX destination ' + d)
                if not act:
                    # predicated off: the destination keeps its value (and the carry flag is not updated)
                    continue
                cc_in = 0
                if base in ('addc', 'subc', 'madc'):
                    cv = st.mem.get(CCKEY)
                    if cv is None:
                        raise Undecided('PTX carry flag read before it is set')
                    cc_in = cv
                if base == 'mov':
                    src = ops[1].strip()
                    if src.startswith('{'):
                        lo, hi = [x.strip() for x in src.strip('{}').split(',')]
                        l = rd(lo, 32)
                        h = rd(hi, 32)
                        regs = dict(regs)
                        regs[di] = KV(l.p + h.p * M32, l.lo + h.lo * M32, l.hi + h.hi * M32)
                    else:
                        regs = dict(regs)
                        regs[di] = rd(src, w)
                    continue
                if base == 'selp':
                    pn = ops[3].strip().lstrip('%')
                    pv = st.mem.get(predkey(pn))
                    if not isinstance(pv, bool):
                        raise Undecided('PTX selp on an undecided predicate')
                    regs = dict(regs)
                    regs[di] = rd(ops[1] if pv else ops[2], w)
                    continue
                if base == 'mul':
                    a = rd(ops[1], 32)
                    b = rd(ops[2], 32)
                    prod = KV(a.p * b.p, a.lo * b.lo, a.hi * b.hi)
                    cc = c.copy()
                    st = st.fork(cc)
                    q, r = gsplit(cc, prod, 32)
                    regs = dict(regs)
                    regs[di] = KV((r if 'lo' in suf else q).p, (r if 'lo' in suf else q).lo, (r if 'lo' in suf else q).hi, 0, None, 32)
                    c = cc
                    continue
                # additive family: exact sum then split at the width
                cc = c.copy()
                st = st.fork(cc)
                c = cc
                if base in ('mad', 'madc'):
                    a = rd(ops[1], 32)
                    b = rd(ops[2], 32)
                    prod = KV(a.p * b.p, a.lo * b.lo, a.hi * b.hi)
                    q, r = gsplit(cc, prod, 32)
                    part = r if 'lo' in suf else q
                    x = KV(part.p, part.lo, part.hi)
                    y = rd(ops[3], w)
                else:
                    x = rd(ops[1], w)
                    y = rd(ops[2], w)
                cin = cc_in if isinstance(cc_in, KV) else const(cc_in, w)
                if base in ('add', 'addc', 'mad', 'madc'):
                    s_p = x.p + y.p + cin.p
                    tot = KV(s_p, x.lo + y.lo + cin.lo, x.hi + y.hi + cin.hi)
                    q, r = gsplit(cc, tot, w)
                    regs = dict(regs)
                    regs[di] = KV(r.p, r.lo, r.hi, 0, None, w)
                    if 'cc' in suf:
                        st.mem[CCKEY] = KV(q.p, q.lo, q.hi, 0, None, w)
                else:
                    # a - b - borrow_in: shift by 2^w to stay non-negative; quotient 1 = no borrow, 0 = borrow
                    s_p = x.p - y.p - cin.p + M
                    tot = KV(s_p, x.lo - y.hi - cin.hi + M, x.hi - y.lo - cin.lo + M)
                    if tot.lo < 0:
                        raise Undecided('PTX subtraction below -2^w')
                    q, r = gsplit(cc, tot, w)
                    regs = dict(regs)
                    regs[di] = KV(r.p, r.lo, r.hi, 0, None, w)
                    if 'cc' in suf:
                        st.mem[CCKEY] = KV(1 - q.p, 1 - q.hi, 1 - q.lo, 0, None, w)
                continue
            if base == 'setp':
                cmpop = suf[0]
                pn = ops[0].strip().lstrip('%')
                act = active()
                if not act:
                    continue
                a = rd(ops[1], 32)
                b = rd(ops[2], 32)
                if 's32' in suf and (a.hi >= (1 << 31) or b.hi >= (1 << 31)):
                    raise Undecided('PTX signed compare on values that may be negative')
                alts = K.cmp_u(c, {'eq': 'eq', 'ne': 'ne', 'lt': 'ult', 'gt': 'ugt', 'le': 'ule', 'ge': 'uge'}[cmpop], a, b)
                res = []
                for c2, val in alts:
                    st2 = st.fork(c2)
                    st2.mem[predkey(pn)] = bool(val)
                    res += run(st2, dict(regs), pc)
                return res
            if base == 'trap':
                raise Undecided('PTX trap reached')
            raise Undecided('PTX instruction not modelled: ' + s_)
        return [(st, regs)]
    res = run(st, regs, 0)
    sts = []
    for st2, rg in res:
        if nout == 0:
            pass
        elif nout == 1:
            if 0 not in rg:
                raise Undecided('PTX statement does not write its output')
            st2.env[ins.dst] = rg[0]
        else:
            vals = []
            for i in range(nout):
                if i not in rg:
                    raise Undecided('PTX statement does not write output %d' % i)
                vals.append(rg[i])
            st2.env[ins.dst] = vals
        sts.append(st2)
    if len(sts) == 1:
        st.case, st.env, st.mem, st.log = sts[0].case, sts[0].env, sts[0].mem, sts[0].log
        return None
    K.cells += len(sts) - 1
    if K.cells > K.budget:
        raise Undecided('partition budget exhausted (%d cells)' % K.cells)
    return ('states', sts)
