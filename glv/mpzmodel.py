"""R-MPZ: sign / interval / residue abstract interpretation of the GMP calls behind the mpz_class expressions of the
conversion routines (fromString, fromScalar, toS64, toS32).

An abstract big integer is an integer polynomial over named symbols (X = the converted integer, V = a canonical element
value, R_k = truncating remainders) with an interval and, for remainders, the residue class mod p they inherit.  Comparisons
that the intervals do not decide split the path (the caller explores every outcome) and refine the intervals."""
import re
from .interp import Incomplete, Sink, Ptr
from .poly import Poly, P, M64, as_poly

INF = float('inf')


class NeedDecision(Exception):
    def __init__(s, key, options):
        Exception.__init__(s, str(key))
        s.key = key
        s.options = options


class AZ:
    __slots__ = ('e', 'lo', 'hi')

    def __init__(s, e, lo, hi):
        s.e = as_poly(e)
        s.lo = lo
        s.hi = hi

    def __repr__(s):
        return 'AZ(%s in [%s,%s])' % (s.e, s.lo, s.hi)


class MpzWorld:
    def __init__(s, decisions):
        s.vals = {}            # (Region, off) -> AZ
        s.bounds = {}          # symbol -> (lo, hi)
        s.resid = {}           # symbol -> Poly mod p it is congruent to
        s.dec = decisions      # key -> outcome
        s.nsym = 0
        s.obligations = []     # (ok, text)
        s.trace = []
        s.floor_rel = {}       # quotient symbol Q -> (expression e, k): Q = floor(e / k), i.e. k*Q <= e <= k*Q + k - 1

    def key(s, p):
        if not isinstance(p, Ptr):
            raise Incomplete('mpz operand is not a pointer')
        return (p.reg, p.off)

    def get(s, p):
        v = s.vals.get(s.key(p))
        if v is None:
            raise Incomplete('use of an uninitialised mpz_t')
        return s.refresh(v)

    def setv(s, p, az):
        s.vals[s.key(p)] = az

    def rng(s, e):
        lo = hi = 0
        for m, c in e.d.items():
            if m == ():
                lo += c
                hi += c
                continue
            if len(m) != 1 or m[0][1] != 1:
                return -INF, INF
            l, h = s.bounds.get(m[0][0], (-INF, INF))
            if c > 0:
                lo += c * l
                hi += c * h
            else:
                lo += c * h
                hi += c * l
        return lo, hi

    def refresh(s, az):
        l, h = s.rng(az.e)
        return AZ(az.e, max(az.lo, l), min(az.hi, h))

    def mk(s, v):
        """abstract integer of an interpreter value (int or Poly over integer symbols)"""
        if isinstance(v, int):
            return AZ(v, v, v)
        if isinstance(v, Poly):
            l, h = s.rng(v)
            return AZ(v, l, h)
        raise Incomplete('mpz initialised from %r' % (v,))

    def residue(s, e):
        """residue normal form mod p of an integer expression (remainder symbols replaced by what they are congruent to)"""
        e = as_poly(e)
        mp = {x: s.resid[x] for x in e.vars() if x in s.resid}
        while mp:
            e = e.subst(mp)
            mp = {x: s.resid[x] for x in e.vars() if x in s.resid}
        return e.modp()

    def decide(s, key, options):
        if key not in s.dec:
            raise NeedDecision(key, options)
        return s.dec[key]

    def refine_sym(s, e, lo=None, hi=None):
        """record a bound on expression e when it is (constant +/-) a single symbol"""
        ms = [m for m in e.d if m != ()]
        if len(ms) == 1 and len(ms[0]) == 1 and ms[0][0][1] == 1:
            c = e.d[ms[0]]
            k0 = e.d.get((), 0)
            x = ms[0][0][0]
            l, h = s.bounds.get(x, (-INF, INF))
            if c == 1:
                if lo is not None:
                    l = max(l, lo - k0)
                if hi is not None:
                    h = min(h, hi - k0)
            elif c == -1:
                if lo is not None:
                    h = min(h, k0 - lo)
                if hi is not None:
                    l = max(l, k0 - hi)
            s.bounds[x] = (l, h)
            if c in (1, -1) and x in s.floor_rel and l != -INF and h != INF:
                # a bound on a quotient symbol is a bound on what it was computed from
                base, k = s.floor_rel[x]
                s.refine_sym(base, lo=l * k, hi=h * k + k - 1)

    def compare(s, a, b):
        """three-way comparison of abstract integers -> -1, 0, 1 (path split when the intervals do not decide)"""
        d = AZ(a.e - b.e, a.lo - b.hi, a.hi - b.lo)
        d = s.refresh(d)
        if d.lo > 0:
            return 1
        if d.hi < 0:
            return -1
        if d.lo == 0 and d.hi == 0:
            return 0
        opts = [o for o in (-1, 0, 1) if (o == -1 and d.lo < 0) or (o == 0 and d.lo <= 0 <= d.hi) or (o == 1 and d.hi > 0)]
        out = s.decide(('cmp', d.e.key()), opts)
        if out == -1:
            s.refine_sym(d.e, hi=-1)
        elif out == 0:
            s.refine_sym(d.e, lo=0, hi=0)
        else:
            s.refine_sym(d.e, lo=1)
        s.trace.append('%s %s 0' % (d.e, {-1: '<', 0: '==', 1: '>'}[out]))
        return out


def summaries(world):
    W = world
    _get = W.get

    def get_traced(p):
        try:
            return _get(p)
        except Incomplete as e:
            I = getattr(W, 'interp', None)
            raise Incomplete('%s (%s)' % (e, ' <- '.join(I.where()[:4]) if I else ''))
    W.get = get_traced

    def init(I, a, ins):
        W.setv(a[0], AZ(0, 0, 0))

    def init_set_ui(I, a, ins):
        W.setv(a[0], W.mk(a[1]))

    def init_set_si(I, a, ins):
        v = a[1]
        if isinstance(v, int):
            v = v - (1 << 64) if v >> 63 else v
        W.setv(a[0], W.mk(v))

    def init_set_str(I, a, ins):
        W.bounds.setdefault('X', (-INF, INF))
        W.setv(a[0], W.refresh(AZ(Poly.var('X'), -INF, INF)))
        return 0

    def set_(I, a, ins):
        W.setv(a[0], W.get(a[1]))

    def clear(I, a, ins):
        W.vals.pop(W.key(a[0]), None)

    def add_ui(I, a, ins):
        x = W.get(a[1])
        u = a[2]
        if not isinstance(u, int):
            raise Incomplete('mpz_add_ui with a symbolic addend')
        W.setv(a[0], AZ(x.e + u, x.lo + u, x.hi + u))

    def ui_sub(I, a, ins):
        u = a[1]
        x = W.get(a[2])
        if not isinstance(u, int):
            raise Incomplete('mpz_ui_sub with a symbolic minuend')
        W.setv(a[0], AZ(-x.e + u, u - x.hi, u - x.lo))

    def neg(I, a, ins):
        x = W.get(a[1])
        W.setv(a[0], AZ(-x.e, -x.hi, -x.lo))

    def tdiv_r_ui(I, a, ins):
        n = W.get(a[1])
        d = a[2]
        if not isinstance(d, int) or d == 0:
            raise Incomplete('mpz_tdiv_r_ui with a symbolic or zero divisor')
        if n.lo >= 0 and n.hi < d:
            W.setv(a[0], n)
            return 0
        sign = 1 if n.lo >= 0 else (-1 if n.hi <= 0 else None)
        if sign is None:
            out = W.decide(('sign', n.e.key()), [-1, 1])
            if out == 1:
                W.refine_sym(n.e, lo=0)
            else:
                W.refine_sym(n.e, hi=-1)
            W.trace.append('%s %s' % (n.e, '>= 0' if out == 1 else '< 0'))
            sign = out
        W.nsym += 1
        r = 'R%d' % W.nsym
        # truncating remainder: sign follows the dividend
        W.bounds[r] = (0, d - 1) if sign == 1 else (-(d - 1), 0)
        if d == P:
            W.resid[r] = W.residue(n.e)
        W.setv(a[0], AZ(Poly.var(r), *W.bounds[r]))
        return 0

    def cmp_si(I, a, ins):
        x = W.get(a[0])
        c = a[1]
        if isinstance(c, int):
            c = c - (1 << 64) if c >> 63 else c
        return W.compare(x, W.mk(c)) & 0xFFFFFFFF

    def cmp_ui(I, a, ins):
        return W.compare(W.get(a[0]), W.mk(a[1])) & 0xFFFFFFFF

    def cmp(I, a, ins):
        return W.compare(W.get(a[0]), W.get(a[1])) & 0xFFFFFFFF

    def get_ui(I, a, ins):
        x = W.get(a[0])
        ok = x.lo >= 0 and x.hi < M64
        W.obligations.append((ok, 'get_ui() of %s in [%s, %s]: %s' % (x.e, x.lo, x.hi, 'non-negative and below 2^64' if ok else
                                                                       'may be negative (get_ui returns the absolute value) or exceed 64 bits'), I.here()))
        return x.e.cval() if x.e.isconst() else x.e

    def get_si(I, a, ins):
        x = W.get(a[0])
        ok = x.lo >= -(1 << 63) and x.hi < (1 << 63)
        W.obligations.append((ok, 'get_si() of %s in [%s, %s]: %s' % (x.e, x.lo, x.hi, 'fits a signed 64-bit integer' if ok else 'may not fit a signed 64-bit integer'), I.here()))
        if x.e.isconst():
            return x.e.cval() & (M64 - 1)
        return x.e

    def fits(lo, hi):
        def f(I, a, ins):
            x = W.get(a[0])
            if x.lo >= lo and x.hi <= hi:
                return 1
            if x.hi < lo or x.lo > hi:
                return 0
            # three-way position of x relative to the window [lo, hi]
            out = W.decide(('fits', x.e.key(), lo, hi), ['below', 'in', 'above'] if x.lo < lo and x.hi > hi else (['below', 'in'] if x.lo < lo else ['in', 'above']))
            if out == 'in':
                W.refine_sym(x.e, lo=lo, hi=hi)
                W.trace.append('%d <= %s <= %d' % (lo, x.e, hi))
                return 1
            if out == 'below':
                W.refine_sym(x.e, hi=lo - 1)
                W.trace.append('%s < %d' % (x.e, lo))
            else:
                W.refine_sym(x.e, lo=hi + 1)
                W.trace.append('%s > %d' % (x.e, hi))
            return 0
        return f

    def rem_ui(kind):
        # mpz_tdiv_ui / mpz_fdiv_ui / mpz_cdiv_ui return the ABSOLUTE VALUE of the remainder as an unsigned long;
        # the remainder itself is truncating (sign of the dividend), floor (non-negative) or ceiling (non-positive)
        def f(I, a, ins):
            n = W.get(a[0])
            d = a[1]
            if not isinstance(d, int) or d == 0:
                raise Incomplete('mpz_%sdiv_ui with a symbolic or zero divisor' % kind)
            sign = 1 if n.lo >= 0 else (-1 if n.hi <= 0 else None)
            if sign is None:
                out = W.decide(('sign', n.e.key()), [-1, 1])
                if out == 1:
                    W.refine_sym(n.e, lo=0)
                else:
                    W.refine_sym(n.e, hi=-1)
                W.trace.append('%s %s' % (n.e, '>= 0' if out == 1 else '< 0'))
                sign = out
            W.nsym += 1
            r = 'R%d' % W.nsym
            W.bounds[r] = (0, d - 1)
            if d == P:
                base = W.residue(n.e)
                if kind == 't':
                    W.resid[r] = base if sign == 1 else (-base).modp()     # |n rem d|
                elif kind == 'f':
                    W.resid[r] = base                                      # n mod d, already non-negative
                else:
                    W.resid[r] = (-base).modp()                            # |ceiling remainder| = (-n) mod d
            return Poly.var(r)
        return f

    def fdiv_r_ui(I, a, ins):
        n = W.get(a[1])
        d = a[2]
        if not isinstance(d, int) or d == 0:
            raise Incomplete('mpz_fdiv_r_ui with a symbolic or zero divisor')
        W.nsym += 1
        r = 'R%d' % W.nsym
        W.bounds[r] = (0, d - 1)
        if d == P:
            W.resid[r] = W.residue(n.e)
        W.setv(a[0], AZ(Poly.var(r), 0, d - 1))
        return Poly.var(r)

    # ---- the std::string operand: length LEN, first character CH0 ('-' = 45 iff the literal is negative), denoted integer X
    STR = '_ZNKSt7__cxx1112basic_stringIcSt11char_traitsIcESaIcEE'
    state = {}

    def str_size(I, a, ins):
        W.bounds.setdefault('LEN', (0, INF))
        return Poly.var('LEN')

    def str_index(I, a, ins):
        from .interp import Region
        reg = state.get('chars')
        if reg is None:
            reg = state['chars'] = Region('string characters', 'param', extent=None, elem='int')
            W.bounds.setdefault('CH0', (0, 255))
            I.mem[(reg, 0)] = (Poly.var('CH0'), 1)
        idx = a[1] if len(a) > 1 else 0
        return Ptr(reg, idx)

    def negative_literal():
        """True / False / None: is the first character known to be '-'?"""
        b = W.bounds.get('CH0')
        if b is None:
            return None
        if b == (45, 45):
            return True
        if b[1] < 45 or b[0] > 45:
            return False
        return None

    def x_bounds(radix):
        neg = negative_literal()
        lo, hi = -INF, INF
        if neg is True:
            hi = 0
        elif neg is False:
            lo = 0
            ln = W.bounds.get('LEN', (0, INF))[1]
            rh = radix if isinstance(radix, int) else W.rng(as_poly(radix))[1]
            if ln != INF and rh != INF:
                hi = int(rh) ** int(ln) - 1
        return lo, hi

    def declare_x(radix):
        lo, hi = x_bounds(radix)
        l0, h0 = W.bounds.get('X', (-INF, INF))
        W.bounds['X'] = (max(l0, lo), min(h0, hi))

    def init_set_str2(I, a, ins):
        declare_x(a[2] if len(a) > 2 else 10)
        W.setv(a[0], W.refresh(AZ(Poly.var('X'), -INF, INF)))
        return 0

    def strtoull(I, a, ins):
        # unsigned long long strtoull(const char *s, char **end, int base): the value of the literal, saturated at 2^64-1;
        # a negative literal is negated in unsigned arithmetic. Only complete, valid literals are modelled (*end = the terminator).
        from .interp import Region
        declare_x(a[2])
        x = W.refresh(AZ(Poly.var('X'), -INF, INF))
        endp = a[1]
        if isinstance(endp, Ptr) and endp.reg.kind != 'null':
            er = state.get('end')
            if er is None:
                er = state['end'] = Region('string terminator', 'param', extent=1, elem='int')
                I.mem[(er, 0)] = (0, 1)
            I.store_cell(endp, Ptr(er, 0), 8)
        if x.lo < 0:
            raise Incomplete('strtoull of a literal that may be negative')
        top = (1 << 64) - 1
        if x.hi <= top:
            return x.e
        out = W.decide(('fits', x.e.key(), 0, top), ['in', 'above'])
        if out == 'in':
            W.refine_sym(x.e, hi=top)
            W.trace.append('%s <= 2^64-1' % x.e)
            return x.e
        W.refine_sym(x.e, lo=top + 1)
        W.trace.append('%s > 2^64-1 (strtoull saturates)' % x.e)
        return top

    S = {STR + '4sizeEv': str_size, STR + '6lengthEv': str_size, STR + 'ixEm': str_index, STR + '2atEm': str_index,
         STR + '5frontEv': str_index, 'strtoull': strtoull, 'strtoul': strtoull, '__isoc23_strtoull': strtoull, '__isoc23_strtoul': strtoull,
         '__gmpz_fits_slong_p': fits(-(1 << 63), (1 << 63) - 1), '__gmpz_fits_ulong_p': fits(0, (1 << 64) - 1),
         '__gmpz_fits_sint_p': fits(-(1 << 31), (1 << 31) - 1), '__gmpz_fits_uint_p': fits(0, (1 << 32) - 1),
         '__gmpz_tdiv_ui': rem_ui('t'), '__gmpz_fdiv_ui': rem_ui('f'), '__gmpz_cdiv_ui': rem_ui('c'), '__gmpz_fdiv_r_ui': fdiv_r_ui,
         '__gmpz_init': init, '__gmpz_init_set_ui': init_set_ui, '__gmpz_init_set_si': init_set_si, '__gmpz_init_set_str': init_set_str,
         '__gmpz_set': set_, '__gmpz_clear': clear, '__gmpz_add_ui': add_ui, '__gmpz_ui_sub': ui_sub, '__gmpz_neg': neg,
         '__gmpz_tdiv_r_ui': tdiv_r_ui, '__gmpz_cmp_si': cmp_si, '__gmpz_cmp_ui': cmp_ui, '__gmpz_cmp': cmp,
         '__gmpz_get_ui': get_ui, '__gmpz_get_si': get_si}
    return S


NOOP_RE = [re.compile(p) for p in (
    r'^_ZStls', r'^_ZNSolsE', r'^_ZNSo', r'^_ZNK?St7__cxx1112basic_string', r'^_ZNSa', r'^_ZStpl', r'^_ZSt4endl', r'7get_strB5cxx11',
    r'^_ZN10Goldilocks8toString', r'^_ZNSt11char_traits')]


def noop(I, args, ins):
    return args[0] if args else None


def decide_hook(W):
    """comparisons between integer symbols with known bounds (the canonical value V) and constants, as path decisions"""
    def decide(pred, a, b):
        # the symbolic side is a mathematical integer that may be negative (a centred value held in a signed machine integer);
        # a constant on the other side is then the two's-complement image of a signed constant
        w = getattr(getattr(W, 'interp', None), 'cmp_width', 64)
        for k_ in range(2):
            x_, c_ = (a, b) if k_ == 0 else (b, a)
            if isinstance(c_, int) and not isinstance(x_, int):
                try:
                    lo_ = W.mk(x_).lo
                except Incomplete:
                    return None
                if lo_ < 0:
                    if pred[0] == 'u':
                        return None        # unsigned order of a possibly negative value: not modelled
                    if c_ >= (1 << (w - 1)):
                        c_ -= 1 << w
                        a, b = (a, c_) if k_ == 0 else (c_, b)
        try:
            x, y = W.mk(a), W.mk(b)
        except Incomplete:
            return None
        if not all(v in W.bounds for v in (x.e - y.e).vars()):
            return None
        c = W.compare(x, y)
        return {'eq': c == 0, 'ne': c != 0, 'ult': c < 0, 'ule': c <= 0, 'ugt': c > 0, 'uge': c >= 0,
                'slt': c < 0, 'sle': c <= 0, 'sgt': c > 0, 'sge': c >= 0}.get(pred)
    return decide


def binop_hook(W):
    """machine-integer shifts / divisions / masks by a constant on a symbolic integer with a known interval: the quotient becomes
    a fresh symbol Q = floor(e / k) whose bounds follow from those of e, and a later decision about Q refines e (refine_sym)"""
    def f(I, op, a, b, ty):
        if not isinstance(b, int) or isinstance(a, int):
            return None
        if op in ('ashr', 'lshr'):
            k = 1 << b
        elif op in ('sdiv', 'udiv') and b > 0:
            k = b
        else:
            return None
        e = as_poly(a)
        lo, hi = W.rng(e)
        if lo == -INF or hi == INF:
            return None
        if op in ('lshr', 'udiv', 'sdiv') and lo < 0:
            return None            # logical shift / unsigned division of a possibly negative value, truncating division: not a floor
        W.nsym += 1
        q = 'Q%d' % W.nsym
        W.bounds[q] = (lo // k, hi // k)
        W.floor_rel[q] = (e, k)
        return Poly.var(q)
    return f


def trunc_hook(W):
    """narrowing of a symbolic integer: allowed when its interval fits the signed target width (obligation recorded)"""
    def f(I, x, ws, wd):
        lo, hi = W.rng(as_poly(x))
        ok = lo >= -(1 << (wd - 1)) and hi < (1 << (wd - 1))
        W.obligations.append((ok, 'narrowing of %s in [%s, %s] to %d bits: %s' % (x, lo, hi, wd, 'fits' if ok else 'may not fit'), I.here()))
        return x
    return f
