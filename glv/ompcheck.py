"""Per-iteration footprint analysis of parallel regions (C12): iterations are the units any OpenMP schedule distributes;
pairwise-disjoint write/write and write/read footprints on shared memory imply race freedom and schedule independence."""
from . import front


def conflicts(region):
    """[(cell, kind, iterations)] conflicting accesses between different iterations of one region instance"""
    cells = {}
    for kind, reg, off, size, it in region['log']:
        if it is None:
            continue        # outside the loop body (bounds set-up): executed by every thread on private copies / read-only
        d = cells.setdefault((reg, off), [set(), set()])
        d[0 if kind == 'w' else 1].add(it)
    out = []
    for (reg, off), (ws, rs) in cells.items():
        if len(ws) > 1:
            out.append(((reg.name, off), 'write/write', sorted(ws)[:4]))
        elif ws and (rs - ws):
            out.append(((reg.name, off), 'write/read', sorted(ws)[:1] + sorted(rs - ws)[:3]))
    return out


def pre_loop_writes(region):
    """writes to shared memory by region code outside any iteration (executed by every team member)"""
    return [(reg.name, off) for kind, reg, off, size, it in region['log'] if kind == 'w' and it is None]


def summarize(I):
    """[(site, caller, iterations, conflicts, shared writes outside iterations)] for the regions executed by interpreter I"""
    out = []
    for r in I.par_regions:
        f, l = r['site']
        out.append(('%s:%s' % (front.rel(f), l), r['caller'], r['iterations'], conflicts(r), pre_loop_writes(r)))
    return out


def uses_thread_identity(cfg='avx2'):
    """number of call sites of omp_get_thread_num / omp_get_num_threads in the OpenMP build of the tree"""
    import re
    return len(re.findall(r'call[^\n]*@omp_get_(?:thread_num|num_threads)\(', open(front.ir_path(cfg, True, True)).read()))


def cross_summarize(I0, I1):
    """Regions whose code asks for the thread number: the footprint of iteration i as thread 0 (interpreter I0) is compared with
    the footprint of iteration j != i as thread 1 of a team of two (I1).  Cells addressed through the thread number differ
    between the two and are private; a cell met in both is shared whatever the thread.  Same result as summarize() for code
    that never looks at its thread number.  None when the two executions do not line up."""
    if len(I0.par_regions) != len(I1.par_regions):
        return None
    out = []
    for r0, r1 in zip(I0.par_regions, I1.par_regions):
        if r0['site'] != r1['site'] or r0['iterations'] != r1['iterations']:
            return None
        c0, c1 = {}, {}
        for cells, r in ((c0, r0), (c1, r1)):
            for kind, reg, off, size, it in r['log']:
                d = cells.setdefault((reg.name, off), [set(), set()])
                d[0 if kind == 'w' else 1].add(it)
        confl, pre = [], []
        for cell, (w0, rd0) in c0.items():
            if cell not in c1:
                continue
            w1, rd1 = c1[cell]
            # code outside the iterations (it None) is executed by both threads
            if None in w0 and (None in w1 or None in rd1):
                pre.append(cell)
            if None in w1 and None in rd0 and cell not in pre:
                pre.append(cell)
            a0, b0 = w0 - {None}, rd0 - {None}
            a1, b1 = w1 - {None}, rd1 - {None}
            ww = [(i, j) for i in a0 for j in a1 if i != j]
            if ww:
                confl.append((cell, 'write/write', sorted(set(ww[0]))))
                continue
            wr = [(i, j) for i in a0 for j in b1 if i != j] + [(i, j) for i in a1 for j in b0 if i != j]
            if wr:
                confl.append((cell, 'write/read', list(wr[0])))
        f, l = r0['site']
        out.append(('%s:%s' % (front.rel(f), l), r0['caller'], r0['iterations'], confl, pre))
    return out
