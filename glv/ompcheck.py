"""Per-iteration footprint analysis of parallel regions (C12): iterations are the units any OpenMP schedule distributes;
pairwise-disjoint write/write and write/read footprints on shared memory imply race freedom and schedule independence."""
from . import front


def conflicts(region):
    """[(cell, kind, iterations)] conflicting accesses between different iterations of one region instance"""
    cells = {}
    for kind, reg, off, size, it in region['log']:
        if it is None:
            continue        # outside the loop body (bounds set-up): executed by every thread on private copies / read-only
        d = cells.setdefault((reg, off), [set(), set()])
        d[0 if kind == 'w' else 1].add(it)
    out = []
    for (reg, off), (ws, rs) in cells.items():
        if len(ws) > 1:
            out.append(((reg.name, off), 'write/write', sorted(ws)[:4]))
        elif ws and (rs - ws):
            out.append(((reg.name, off), 'write/read', sorted(ws)[:1] + sorted(rs - ws)[:3]))
    return out


def pre_loop_writes(region):
    """writes to shared memory by region code outside any iteration (executed by every team member)"""
    return [(reg.name, off) for kind, reg, off, size, it in region['log'] if kind == 'w' and it is None]


def summarize(I):
    """[(site, caller, iterations, conflicts, shared writes outside iterations)] for the regions executed by interpreter I"""
    out = []
    for r in I.par_regions:
        f, l = r['site']
        out.append(('%s:%s' % (front.rel(f), l), r['caller'], r['iterations'], conflicts(r), pre_loop_writes(r)))
    return out
