"""Dispatch of the shape-independent rule checkers (glv/rules.py) used by the transform properties."""
from . import rules


def run_rules(rep, which):
    for w in which:
        f = getattr(rules, 'rule_' + w.replace('-', '_'), None)
        if f is None:
            rep.incomplete('rule:' + w, 'rules', 'glv/rules.py', 'rule %s is not implemented' % w)
            continue
        try:
            f(rep)
        except Exception as e:
            rep.incomplete('rule:' + w, 'rules', 'glv/rules.py', 'rule aborted: %s: %s' % (type(e).__name__, str(e)[:200]))
