"""Shape-independent rule checkers on the NTT translation unit (filled in incrementally)."""


def run_rules(rep, which):
    from . import rules
    for w in which:
        f = getattr(rules, 'rule_' + w.replace('-', '_'), None)
        if f is not None:
            f(rep)
