"""Small helper routines that do raw 64-bit arithmetic on field representations inside code the bounded-shape tiers interpret
(an "exact division by 2^k" in the last inverse stage, a hand-written butterfly, a hand-written reduction in a sponge ...).

The bounded tiers work on residue normal forms and cannot follow raw integer arithmetic on a representation.  When such a
helper is met (Interp option `raw_helper`), it is decided on its own in kernel mode, for ALL representations its operands may
have at the call (their typestates), against a specification inferred from the helper itself:

  1. the helper is evaluated (constant propagation, no symbolic data) at every 0/1 assignment of its Element operands; that fixes
     the one multilinear polynomial over F_p (per output) that agrees with it there;
  2. kernel mode proves  output == that polynomial (mod p)  for all representations, or produces a witness.

Proved: the bounded tier continues with the polynomial as the helper's summary (the transform's own specification then decides
whether that is the right function).  Witness: the tier continues with the polynomial as well and the finding is kept on the
interpreter; if the surrounding computation then meets its specification *with the polynomial*, the helper deviates from what the
specification needs at the witness operand - a refutation at contract level (the operand is a value the contracts of the
producers allow, e.g. a non-canonical sum of Goldilocks::add).  Anything else: ANALYSIS-INCOMPLETE, as before.

Operands: Element& / Element* parameters (8-byte cells; pointers to the same cell are one operand) and Element parameters passed
by value (an i64 that carries a field value at the call).  Every other argument must be a concrete integer at the call."""
import itertools
from .interp import Interp, Region, Ptr, Incomplete, Sink
from .ir import IRError
from .poly import Poly, FV, P, as_poly, M32

ELEM_PTR = ('p', ('s', '%"struct.Goldilocks::Element"'))
_cache = {}
MAX_INSTR = 250
MAX_OPERANDS = 4


def candidate(mod, name, fn, args):
    k = ('cand', id(mod), name)
    c = _cache.get(k)
    if c is None:
        c = False
        try:
            f = mod.fn_loc(name)[0]
        except Exception:
            f = None
        if f and '/src/' in f:
            ptrs = [t for t, pn in fn.params if t[0] == 'p']
            if all(t == ELEM_PTR for t in ptrs) and len(ptrs) <= MAX_OPERANDS:
                n = sum(len(fn.blocks[b]) for b in fn.order)
                c = n <= MAX_INSTR
        _cache[k] = c
    if not c:
        return False
    nop = 0
    for (t, pn), a in zip(fn.params, args):
        if t[0] == 'p':
            if not isinstance(a, Ptr):
                return False
            nop += 1
        elif isinstance(a, FV):
            if t != ('i', 64):
                return False
            nop += 1
        elif not isinstance(a, int):
            return False
    return 1 <= nop <= MAX_OPERANDS


def _operands(fn, args):
    """-> (operands, ints): operands = list of ('cell', [param indices]) / ('val', [param index]); ints = {param index: int}"""
    ops = []
    ints = {}
    for i, ((t, pn), a) in enumerate(zip(fn.params, args)):
        if t[0] == 'p':
            for kind, members in ops:
                if kind == 'cell':
                    b = args[members[0]]
                    if b.reg is a.reg and as_poly(b.off) == as_poly(a.off):
                        members.append(i)
                        break
            else:
                ops.append(('cell', [i]))
        elif isinstance(a, FV):
            ops.append(('val', [i]))
        else:
            ints[i] = a
    return ops, ints


def _evaluate(mod, name, fn, ops, ints, point):
    """run the helper on concrete operands -> {operand index: value} of the cells it wrote"""
    I = Interp(mod, {}, {'log_access': True})
    regs = {}
    args = [None] * len(fn.params)
    for g, (kind, members) in enumerate(ops):
        if kind == 'cell':
            r = Region('h%d' % g, 'param', extent=8, elem='int')
            regs[g] = r
            I.mem[(r, 0)] = (point[g], 8)
            for i in members:
                args[i] = Ptr(r, 0)
        else:
            args[members[0]] = point[g]
    for i, v in ints.items():
        args[i] = v
    I.writes = []
    ret = I.call(name, args)
    out = {}
    for g, r in regs.items():
        if any(w[0] is r for w in I.writes):
            v = I.mem.get((r, 0))
            if v is None or not isinstance(v[0], int):
                raise Incomplete('helper output is not a concrete integer at a concrete point')
            out[g] = v[0] % P
    if isinstance(ret, int) and fn.ret == ('i', 64):
        out['ret'] = ret % P
    return out


def decide(I, name, args):
    """-> the helper's return value after writing its outputs, or NotImplemented"""
    from .contracts import to_fv
    mod = I.mod
    fn = mod.fn(name)
    ops, ints = _operands(fn, args)
    # typestates of the operands at this call
    xs = []
    tss = []
    for kind, members in ops:
        if kind == 'cell':
            a_ = args[members[0]]
            if I.mem.get((a_.reg, a_.off if isinstance(a_.off, int) else None)) is None and a_.reg.kind != 'param':
                v = None        # an output-only cell that holds nothing yet (reading it would be an uninitialised read)
            else:
                try:
                    v = to_fv(I.load_cell(a_, 8))
                except (Incomplete, Sink):
                    v = None
            if v is not None and not isinstance(v, FV):
                return NotImplemented
        else:
            v = args[members[0]]
        xs.append(v)
        tss.append('canon' if (v is not None and v.ts == 'canon') else 'u64')
    key = ('dec', id(mod), name, tuple(sorted(ints.items())), tuple((k, tuple(m)) for k, m in ops), tuple(tss))
    res = _cache.get(key)
    if res is None:
        res = _decide(mod, name, fn, ops, ints, tss)
        _cache[key] = res
    kind, outs, coef, info = res
    if kind == 'unknown':
        return NotImplemented
    vals = {}
    for og in outs:
        acc = Poly()
        for S, c in coef[og].items():
            term = Poly.const(c)
            for g in S:
                if xs[g] is None:
                    return NotImplemented      # the helper reads a cell that holds nothing
                term = term * xs[g].nf
            acc = acc + term
        vals[og] = FV(acc.modp(), 'u64')
    ret = None
    for og, v in vals.items():
        if og == 'ret':
            ret = v
        else:
            I.store_cell(args[ops[og][1][0]], v, 8)
    if kind == 'witness':
        if not hasattr(I, 'helper_findings'):
            I.helper_findings = []
        if not any(f['name'] == name and f['info'] == info for f in I.helper_findings):
            try:
                loc = mod.fn_loc(name)
            except Exception:
                loc = (None, None)
            I.helper_findings.append(dict(name=name, dem=mod.dem.get(name, name), info=info, loc=loc))
    return ret


def _decide(mod, name, fn, ops, ints, tss):
    from . import kprove
    from .kernel import const, BOXES
    n = len(ops)
    try:
        pts = {}
        outs = None
        for point in itertools.product((0, 1), repeat=n):
            o = _evaluate(mod, name, fn, ops, ints, point)
            pts[point] = o
            outs = set(o) if outs is None else (outs | set(o))
        if not outs:
            return ('unknown', None, None, 'the helper writes no Element operand')
        outs = sorted(outs, key=str)
        coef = {}
        for og in outs:
            cf = {}
            for S in itertools.chain.from_iterable(itertools.combinations(range(n), r) for r in range(n + 1)):
                acc = 0
                for T in itertools.chain.from_iterable(itertools.combinations(S, r) for r in range(len(S) + 1)):
                    pt = tuple(1 if g in T else 0 for g in range(n))
                    v = pts[pt].get(og)
                    if v is None:
                        raise Incomplete('output written on some paths only')
                    acc += (-1) ** (len(S) - len(T)) * v
                if acc % P:
                    cf[S] = acc % P
            coef[og] = cf
        # is the helper a multilinear function at all?  Compare it with the interpolant at generic points (small integers,
        # random canonical and non-canonical words): a squaring, an S-box, a predicate ... disagrees at once and is left alone
        # (ANALYSIS-INCOMPLETE as before); a helper that agrees at all of them is meant to be that polynomial, and a
        # representation at which it is not (kernel mode below) is a defect of the helper
        import random
        rnd = random.Random(12345)
        pool = [2, 3, 5, 7, 1 << 32, (1 << 32) - 1, P - 1, P - 2, 1 << 63, (1 << 63) + 12345]
        generic = [tuple(pool[(i + 3 * g) % len(pool)] for g in range(n)) for i in range(len(pool))]
        generic += [tuple(rnd.randrange(P) for _ in range(n)) for _ in range(24)]
        for point in generic:
            o = _evaluate(mod, name, fn, ops, ints, point)
            for og in outs:
                want = 0
                for S, c in coef[og].items():
                    t = c
                    for g in S:
                        t = t * point[g] % P
                    want = (want + t) % P
                if o.get(og) is None or o[og] % P != want:
                    return ('unknown', None, None, 'not a multilinear function of its operands (differs from the 0/1 interpolant at a generic point)')
    except (Incomplete, IRError, Sink, KeyError) as e:
        return ('unknown', None, None, str(e))
    nargs = len(fn.params)
    alias = {}
    in_cells = []
    for g, (kind, members) in enumerate(ops):
        if kind == 'cell':
            for i in members[1:]:
                alias[i] = members[0]
            in_cells.append((members[0], 0, 'x%d' % g, tss[g]))
        else:
            in_cells.append((members[0], None, 'x%d' % g, tss[g]))
    out_cells = [('ret', 0) if og == 'ret' else (ops[og][1][0], 0) for og in outs]

    def mkspec(og):
        def sp(A):
            acc = Poly()
            for S, c in coef[og].items():
                t = Poly.const(c)
                for g in S:
                    t = t * A['x%d' % g]
                acc = acc + t
            return acc
        return sp
    widths = {i: t[1] for i, (t, pn) in enumerate(fn.params) if t[0] == 'i'}
    va = {i: const(v & ((1 << widths[i]) - 1), widths[i]) for i, v in ints.items()}
    try:
        with kprove.time_limit(120):
            r = kprove.prove_cells(mod, name, nargs, in_cells, out_cells, [mkspec(og) for og in outs], alias=alias or None,
                                   value_args=va, budget=20000)
    except kprove.TimeBudget as e:
        return ('unknown', None, None, 'kernel mode: %s' % e)
    except Exception as e:
        return ('unknown', None, None, 'kernel mode: %s: %s' % (type(e).__name__, str(e)[:160]))
    if r.undecided:
        return ('unknown', None, None, 'kernel mode: ' + r.undecided[0][:200])
    if not r.failures:
        return ('proved', outs, coef, '%d cells' % r.cells)
    f = r.failures[0]
    if f.get('witness') is None:
        return ('unknown', None, None, 'kernel mode: cell not discharged, no witness: ' + f['detail'][:160])
    w = f['witness']
    opsd = {}
    for k in range(n):
        h, l = w.get('x%dh' % k), w.get('x%dl' % k)
        if h is not None and l is not None:
            opsd['operand %d (%s)' % (k, tss[k])] = '0x%016x' % ((h << 32) | l)
    text = '%s: %s; witness %s%s' % (mod.dem.get(name, name).split('(')[0], f['detail'][:200], opsd,
                                     (' with integer arguments %s' % sorted(ints.values())) if ints else '')
    return ('witness', outs, coef, text)
