"""Small helper routines that do raw 64-bit arithmetic on field representations inside code the bounded-shape tiers interpret
(an "exact division by 2^k" in the last inverse stage, a hand-written reduction in a sponge ...).

The bounded tiers work on residue normal forms and cannot follow raw integer arithmetic on a representation.  When such a
helper is met (Interp option `raw_helper`), it is decided on its own in kernel mode, for ALL 64-bit representations of its
operands, against a specification inferred from the helper itself:

  1. the helper is evaluated (constant propagation, no symbolic data) at every 0/1 assignment of its Element operands; that fixes
     the one multilinear polynomial over F_p that agrees with it there;
  2. kernel mode proves  output == that polynomial (mod p)  for all representations, or produces a witness.

Proved: the bounded tier continues with the polynomial as the helper's summary (the transform's own specification then decides
whether that is the right function).  Witness: the tier continues with the polynomial as well and the finding is kept on the
interpreter; if the surrounding computation then meets its specification *with the polynomial*, the helper deviates from what the
specification needs at the witness operand - a refutation at contract level (the operand is a value the callee contracts of the
producers allow, e.g. a non-canonical sum of Goldilocks::add).  Anything else: ANALYSIS-INCOMPLETE, as before."""
import itertools
from .interp import Interp, Region, Ptr, Incomplete, Sink
from .ir import IRError
from .poly import Poly, FV, P, as_poly

ELEM_PTR = ('p', ('s', '%"struct.Goldilocks::Element"'))
_cache = {}
MAX_INSTR = 250


def candidate(mod, name, fn, args):
    """a small library routine whose pointer parameters are all Element* / Element& and whose other parameters are concrete"""
    k = ('cand', id(mod), name)
    c = _cache.get(k)
    if c is None:
        c = False
        try:
            f = mod.fn_loc(name)[0]
        except Exception:
            f = None
        if f and '/src/' in f:
            ptrs = [t for t, pn in fn.params if t[0] == 'p']
            if ptrs and all(t == ELEM_PTR for t in ptrs) and 1 <= len(ptrs) <= 4:
                n = sum(len(fn.blocks[b]) for b in fn.order)
                c = n <= MAX_INSTR
        _cache[k] = c
    if not c:
        return False
    for (t, pn), a in zip(fn.params, args):
        if t[0] == 'p':
            if not isinstance(a, Ptr):
                return False
        elif not isinstance(a, int):
            return False
    return True


def _evaluate(mod, name, fn, pidx, groups, ints, point):
    """run the helper on concrete operands -> {group index: value} of the cells it wrote"""
    I = Interp(mod, {}, {'log_access': True})
    regs = [Region('h%d' % g, 'param', extent=8, elem='int') for g in range(len(groups))]
    for g, v in enumerate(point):
        I.mem[(regs[g], 0)] = (v, 8)
    args = []
    for i, (t, pn) in enumerate(fn.params):
        if t[0] == 'p':
            g = [k for k, members in enumerate(groups) if i in members][0]
            args.append(Ptr(regs[g], 0))
        else:
            args.append(ints[i])
    I.writes = []
    I.call(name, args)
    out = {}
    for g, r in enumerate(regs):
        v = I.mem.get((r, 0))
        if any(w[0] is r for w in I.writes):
            if v is None or not isinstance(v[0], int):
                raise Incomplete('helper output is not a concrete integer at a concrete point')
            out[g] = v[0] % P
    return out


def decide(I, name, args):
    """-> summary function result (None) after writing the outputs, or NotImplemented"""
    from . import kprove
    from .kernel import const
    mod = I.mod
    fn = mod.fn(name)
    pidx = [i for i, (t, pn) in enumerate(fn.params) if t[0] == 'p']
    # pointer arguments that are the same cell form one operand (in-place call)
    groups = []
    for i in pidx:
        a = args[i]
        for g in groups:
            b = args[g[0]]
            if b.reg is a.reg and as_poly(b.off) == as_poly(a.off):
                g.append(i)
                break
        else:
            groups.append([i])
    ints = {i: a for i, a in enumerate(args) if i not in pidx}
    key = ('dec', id(mod), name, tuple(sorted(ints.items())), tuple(tuple(g) for g in groups))
    res = _cache.get(key)
    if res is None:
        res = _decide(mod, name, fn, pidx, groups, ints)
        _cache[key] = res
    kind, outs, coef, info = res
    if kind == 'unknown':
        return NotImplemented
    # apply the multilinear summary
    xs = []
    from .contracts import to_fv
    for g in groups:
        xs.append(None)
    vals = {}
    for og in outs:
        acc = Poly()
        for S, c in coef[og].items():
            term = Poly.const(c)
            for g in S:
                if xs[g] is None:
                    xs[g] = to_fv(I.load_cell(args[groups[g][0]], 8)).nf
                term = term * xs[g]
            acc = acc + term
        vals[og] = FV(acc.modp(), 'u64')
    for og, v in vals.items():
        I.store_cell(args[groups[og][0]], v, 8)
    if kind == 'witness':
        if not hasattr(I, 'helper_findings'):
            I.helper_findings = []
        if not any(f['name'] == name and f['info'] == info for f in I.helper_findings):
            try:
                loc = mod.fn_loc(name)
            except Exception:
                loc = (None, None)
            I.helper_findings.append(dict(name=name, dem=mod.dem.get(name, name), info=info, loc=loc))
    return None


def _decide(mod, name, fn, pidx, groups, ints):
    from . import kprove
    from .kernel import const
    n = len(groups)
    try:
        pts = {}
        outs = None
        for point in itertools.product((0, 1), repeat=n):
            o = _evaluate(mod, name, fn, pidx, groups, ints, point)
            pts[point] = o
            outs = set(o) if outs is None else (outs | set(o))
        if not outs:
            return ('unknown', None, None, 'the helper writes no Element operand')
        outs = sorted(outs)
        # Moebius inversion: coefficients of the multilinear interpolant
        coef = {}
        for og in outs:
            cf = {}
            for S in itertools.chain.from_iterable(itertools.combinations(range(n), r) for r in range(n + 1)):
                acc = 0
                for T in itertools.chain.from_iterable(itertools.combinations(S, r) for r in range(len(S) + 1)):
                    pt = tuple(1 if g in T else 0 for g in range(n))
                    v = pts[pt].get(og)
                    if v is None:
                        raise Incomplete('output written on some paths only')
                    acc += (-1) ** (len(S) - len(T)) * v
                if acc % P:
                    cf[S] = acc % P
            coef[og] = cf
    except (Incomplete, IRError, Sink, KeyError) as e:
        return ('unknown', None, None, str(e))
    # kernel-mode proof for all representations
    nargs = len(fn.params)
    alias = {}
    for g in groups:
        for i in g[1:]:
            alias[i] = g[0]
    in_cells = [(g[0], 0, 'x%d' % k, 'u64') for k, g in enumerate(groups)]
    out_cells = [(groups[og][0], 0) for og in outs]

    def mkspec(og):
        def sp(A):
            acc = Poly()
            for S, c in coef[og].items():
                t = Poly.const(c)
                for g in S:
                    t = t * A['x%d' % g]
                acc = acc + t
            return acc
        return sp
    widths = {i: t[1] for i, (t, pn) in enumerate(fn.params) if t[0] == 'i'}
    va = {i: const(v & ((1 << widths[i]) - 1), widths[i]) for i, v in ints.items()}
    try:
        r = kprove.prove_cells(mod, name, nargs, in_cells, out_cells, [mkspec(og) for og in outs], alias=alias or None,
                               value_args=va, budget=20000)
    except Exception as e:
        return ('unknown', None, None, 'kernel mode: %s: %s' % (type(e).__name__, str(e)[:160]))
    if r.undecided:
        return ('unknown', None, None, 'kernel mode: ' + r.undecided[0][:200])
    if not r.failures:
        return ('proved', outs, coef, '%d cells' % r.cells)
    f = r.failures[0]
    if f.get('witness') is None:
        return ('unknown', None, None, 'kernel mode: cell not discharged, no witness: ' + f['detail'][:160])
    w = f['witness']
    ops = {}
    for k in range(n):
        h, l = w.get('x%dh' % k), w.get('x%dl' % k)
        if h is not None and l is not None:
            ops['operand %d' % k] = '0x%016x' % ((h << 32) | l)
    text = '%s: %s; witness %s%s' % (mod.dem.get(name, name).split('(')[0], f['detail'][:200], ops,
                                     (' with integer arguments %s' % sorted(ints.values())) if ints else '')
    return ('witness', outs, coef, text)
