"""Rule checkers over the IR (DESIGN §4): shape-independent clauses of C03/C04/C05/C18/C19.

Every rule enumerates its instances from the tree, reports `file:line`, and checks an instance floor so that a rule that
silently matches nothing is ANALYSIS-INCOMPLETE rather than a pass."""
import re
from . import front, ir
from .cfg import FnInfo, regs_of, callee_name, field_of_this
from .poly import P

CLS = 'NTT_Goldilocks'
NTT_METHODS = r'^NTT_Goldilocks::(NTT|INTT|NTT_iters|extendPol|reversePermutation|computeR|root|intt_idx|log2)\('
ALLOC = {'malloc': 'malloc', '_Znam': 'new[]', '_Znwm': 'new'}
RELEASE = {'free': 'free', '_ZdaPv': 'delete[]', '_ZdlPv': 'delete'}
PAIR = {'malloc': 'free', 'new[]': 'delete[]', 'new': 'delete'}

_cache = {}


def smod(cfg='avx2'):
    return front.module(cfg, sroa=True)


def info(mod, name):
    k = (id(mod), name)
    if k not in _cache:
        _cache[k] = FnInfo(mod.fn(name))
    return _cache[k]


def loc(mod, ins, fname=None):
    f, l = mod.loc(ins.dbg)
    if f is None and fname:
        f, l = mod.fn_loc(fname)
    return '%s:%s' % (front.rel(f), l)


def class_fields(mod):
    """field index -> member name of NTT_Goldilocks (from the debug info, so that a reordering of members is followed)"""
    names_by_off = {}
    cid = None
    for ref, txt in mod._mdtxt.items():
        if 'DW_TAG_class_type' in txt and 'name: "%s"' % CLS in txt and 'elements:' in txt:
            cid = ref
            break
    if cid is None:
        return {}
    for ref, txt in mod._mdtxt.items():
        if 'DW_TAG_member' in txt and ('scope: %s,' % cid) in txt:
            m = re.search(r'name: "(\w+)"', txt)
            o = re.search(r'offset: (\d+)', txt)
            if m:
                names_by_off[int(o.group(1)) // 8 if o else 0] = m.group(1)
    out = {}
    ty = ('s', '%class.' + CLS)
    fs = mod.struct_fields(ty[1])
    for i in range(len(fs[1])):
        try:
            off, ft = ir.field_offset(mod, ty, i)
        except ir.IRError:
            break
        if off in names_by_off:
            out[i] = names_by_off[off]
    # The rules speak of the members by the names they have on the pinned tree.  All of those names present: the debug info is
    # followed (a reordering of members changes nothing).  Otherwise, when the layout (field types in order) is the pinned
    # one, the members are identified by position (a renaming of members changes nothing).  Neither: whatever names there are.
    if not set(PINNED_MEMBERS) <= set(out.values()):
        tys = tuple(fs[1][:len(PINNED_MEMBERS)])
        if tys == PINNED_MEMBER_TYPES:
            return {i: nm for i, nm in enumerate(PINNED_MEMBERS)}
    return out


_E = ('p', ('s', '%"struct.Goldilocks::Element"'))
PINNED_MEMBERS = ['s', 'nThreads', 'nqr', 'roots', 'powTwoInv', 'r', 'r_', 'rSize', 'extension']
PINNED_MEMBER_TYPES = (('i', 32), ('i', 32), ('i', 64), _E, _E, _E, _E, ('i', 64), ('i', 32))


def own_methods(mod):
    """every method of the transform class except constructors and destructors (helpers may be renamed: no name list)"""
    return [n for n in mod.find_re(r'^%s::\w+\(' % CLS)
            if not re.match(r'^%s::(~|%s\()' % (CLS, CLS), mod.dem[n]) and not is_local_entity(mod.dem[n])]


def is_local_entity(dem):
    """lambdas and local classes: `Class::method(args)::{lambda(...)#1}::operator()(...)` - their first parameter is a closure, not the object"""
    return '{lambda' in dem or ')::' in dem


def methods(mod, pat=None):
    return own_methods(mod) if pat is None else [n for n in mod.find_re(pat) if not is_local_entity(mod.dem[n])]


# ------------------------------------------------------------------------------------------------ R-NULL
def null_beliefs(mod, names):
    """{function: {param: (why, site)}}: parameters the code itself treats as possibly null"""
    beliefs = {n: {} for n in names}
    infos = {n: info(mod, n) for n in names}
    for n, fi in infos.items():
        for b in fi.fn.order:
            for ins in fi.fn.blocks[b]:
                if ins.op == 'icmp' and ins.x in ('eq', 'ne'):
                    ops = list(ins.a)
                    if ('null',) in ops:
                        o = ops[0] if ops[1] == ('null',) else ops[1]
                        if o[0] == 'r' and o[1] in fi.params:
                            beliefs[n].setdefault(o[1], ('compared with NULL', loc(mod, ins, n)))
    # pointers the public interface allows to be null (property C03/C04: "destination ... or null instead of the source",
    # scratch buffer defaults to NULL in ntt_goldilocks.hpp): frozen table, one reason per entry
    # (function, 0-based parameter position after `this`, documented name, reason)
    API_NULLABLE = {'NTT': [(0, 'dst', 'C03: destination may be null (in place)'), (4, 'buffer', 'default argument buffer = NULL')],
                    'INTT': [(0, 'dst', 'C04: a null destination means in place'), (4, 'buffer', 'default argument buffer = NULL')],
                    'extendPol': [(5, 'buffer', 'default argument buffer = NULL')]}
    missing = []
    for n, fi in infos.items():
        m = re.match(r'NTT_Goldilocks::(\w+)\(', mod.dem[n])
        ps = [pn for t, pn in fi.fn.params][1:]
        from . import harness as _h
        if not _h.is_pinned(mod.dem[n]):
            continue        # an overload the pinned interface does not have: no documented nullable parameters
        for pos, doc, why in API_NULLABLE.get(m.group(1) if m else '', []):
            if pos < len(ps) and fi.fn.params[pos + 1][0][0] == 'p':
                beliefs[n].setdefault(ps[pos], (why, '%s:%s' % (front.rel(mod.fn_loc(n)[0]), mod.fn_loc(n)[1])))
            else:
                missing.append('%s parameter #%d (%s)' % (m.group(1), pos, doc))
    beliefs['__missing__'] = missing
    return beliefs, infos


def pure_pointer_flow(fi, reg, src):
    seen = set()
    todo = [reg]
    while todo:
        r = todo.pop()
        if r in seen:
            continue
        seen.add(r)
        if r == src:
            return True
        d = fi.defs.get(r)
        if d is None:
            continue
        ins = d[1]
        if ins.op == 'phi':
            for v, l in ins.a:
                todo += regs_of(v)
        elif ins.op in ('bitcast', 'select'):
            todo += fi.uses(ins)
    return False


def nonnull_analysis(fi, maybe):
    """forward must-analysis: for every block the set of registers known to be non-null at its entry.
    `maybe`: parameters believed to be possibly null; every other pointer source is taken as non-null."""
    fn = fi.fn
    order = fn.order
    TOP = None
    IN = {b: TOP for b in order}
    IN[order[0]] = frozenset()

    def is_nonnull(v, facts):
        if v[0] == 'r':
            if v[1] in facts:
                return True
            if v[1] in fi.params:
                return v[1] not in maybe
            d = fi.defs.get(v[1])
            if d is None:
                return True
            ins = d[1]
            if ins.op in ('getelementptr', 'bitcast'):
                return is_nonnull(ins.a[0], facts)
            if ins.op in ('phi', 'select'):
                return False        # only via facts
            return True             # loads, calls (malloc results are not tested by this code), allocas
        if v[0] == 'null':
            return False
        return True

    def edge_facts(b, succ, facts):
        t = fi.term[b]
        out = set(facts)
        if t is not None and t.op == 'br' and t.a and t.a[0][0] == 'r':
            d = fi.defs.get(t.a[0][1])
            if d is not None and d[1].op == 'icmp' and d[1].x in ('eq', 'ne') and ('null',) in d[1].a:
                o = d[1].a[0] if d[1].a[1] == ('null',) else d[1].a[1]
                if o[0] == 'r':
                    nonnull_succ = t.x[1] if d[1].x == 'eq' else t.x[0]
                    if succ == nonnull_succ and t.x[0] != t.x[1]:
                        out.add(o[1])
        return out

    def transfer(b, facts):
        facts = set(facts)
        for ins in fn.blocks[b]:
            if ins.op == 'phi':
                continue
            if ins.op == 'select' and ins.dst:
                if is_nonnull(ins.a[1], facts) and is_nonnull(ins.a[2], facts):
                    facts.add(ins.dst)
            elif ins.op in ('getelementptr', 'bitcast') and ins.dst:
                if is_nonnull(ins.a[0], facts):
                    facts.add(ins.dst)
        return facts
    OUT = {}
    changed = True
    it = 0
    while changed and it < 50:
        changed = False
        it += 1
        for b in order:
            if b != order[0]:
                acc = None
                for p in fi.pred[b]:
                    if IN[p] is None and p not in OUT:
                        continue
                    ef = edge_facts(p, b, OUT.get(p, set()))
                    # phi results: non-null if the incoming value on this edge is non-null
                    for ins in fn.blocks[b]:
                        if ins.op != 'phi':
                            break
                        for v, l in ins.a:
                            if l == p and is_nonnull(v, ef):
                                ef.add(ins.dst)
                    acc = set(ef) if acc is None else (acc & ef)
                newin = frozenset(acc) if acc is not None else None
                if newin != IN[b]:
                    IN[b] = newin
                    changed = True
            if IN[b] is not None:
                o = transfer(b, IN[b])
                if OUT.get(b) != o:
                    OUT[b] = o
                    changed = True
    return IN, is_nonnull


def rule_null(rep):
    mod = smod()
    names = own_methods(mod)
    rep.floor('R-NULL functions', len(names), 5)
    beliefs, infos = null_beliefs(mod, names)
    for m_ in beliefs.pop('__missing__', []):
        rep.incomplete('null:api ' + m_, 'R-NULL', 'src/ntt_goldilocks.hpp', 'nullable interface parameter %s no longer exists under that name' % m_)
    nb = sum(len(v) for v in beliefs.values())
    rep.floor('R-NULL beliefs', nb, 6)
    for n in names:
        fi = infos[n]
        maybe = set(beliefs[n])
        short = mod.dem[n].split('(')[0]
        if not maybe:
            continue
        IN, is_nonnull = nonnull_analysis(fi, maybe)
        bad = []
        nder = 0
        for b in fi.fn.order:
            if IN[b] is None:
                continue
            facts = set(IN[b])
            for ins in fi.fn.blocks[b]:
                ptrs = []
                if ins.op == 'load':
                    ptrs = [ins.a[0]]
                elif ins.op == 'store':
                    ptrs = [ins.a[1]]
                else:
                    c = callee_name(ins)
                    if c and (c.startswith('llvm.memcpy') or c.startswith('llvm.memmove')):
                        ptrs = [ins.a[1], ins.a[2]]
                    elif c and c.startswith('llvm.memset'):
                        ptrs = [ins.a[1]]
                for pv in ptrs:
                    if pv[0] != 'r':
                        continue
                    roots = [r for r in fi.backward_slice([pv[1]]) if r in maybe and pure_or_gep_flow(fi, pv[1], r)]
                    if not roots:
                        continue
                    nder += 1
                    if not is_nonnull(pv, facts):
                        bad.append((ins, roots[0]))
                # keep facts current inside the block
                if ins.op == 'select' and ins.dst and is_nonnull(ins.a[1], facts) and is_nonnull(ins.a[2], facts):
                    facts.add(ins.dst)
                elif ins.op in ('getelementptr', 'bitcast') and ins.dst and is_nonnull(ins.a[0], facts):
                    facts.add(ins.dst)
        for p, (why, site) in beliefs[n].items():
            tag = 'null:%s %s' % (short, p)
            mine = [(i, r) for i, r in bad if r == p]
            if mine:
                i0 = mine[0][0]
                rep.refute(tag, 'R-NULL', loc(mod, i0, n), 'parameter %s may be null (%s at %s) but is dereferenced here without a dominating test (%d sites)' % (
                    p[1:], why, site, len(mine)))
            else:
                rep.ok(tag, 'R-NULL', site, 'parameter %s may be null (%s); every dereference is dominated by a test or a non-null reassignment' % (p[1:], why))


def pure_or_gep_flow(fi, reg, src):
    seen = set()
    todo = [reg]
    while todo:
        r = todo.pop()
        if r in seen:
            continue
        seen.add(r)
        if r == src:
            return True
        d = fi.defs.get(r)
        if d is None:
            continue
        ins = d[1]
        if ins.op == 'phi':
            for v, l in ins.a:
                todo += regs_of(v)
        elif ins.op in ('bitcast', 'select'):
            todo += fi.uses(ins)
        elif ins.op == 'getelementptr':
            todo += regs_of(ins.a[0])
    return False


# ------------------------------------------------------------------------------------------------ R-DEP(s), R-EFFECT
def rule_dep_s(rep):
    """the member s (log2 of the object's capacity) may be read outside constructor/destructor/root() only for assertions:
    the pass schedule must be a function of the call's size and nphase"""
    mod = smod()
    fields = class_fields(mod)
    idx = [i for i, nm in fields.items() if nm == 's']
    if not idx:
        rep.incomplete('dep-s', 'R-DEP', 'src/ntt_goldilocks.hpp', 'member s not found in the debug info of the class')
        return
    k = idx[0]
    kr = [i for i, nm in fields.items() if nm == 'roots']
    k_roots = kr[0] if kr else None
    names = own_methods(mod)
    rep.floor('R-DEP functions', len(names), 6)
    nreads = 0
    for n in names:
        fi = info(mod, n)
        short = mod.dem[n].split('(')[0]
        for b in fi.fn.order:
            for ins in fi.fn.blocks[b]:
                if ins.op == 'load' and field_of_this(fi, ins.a[0]) == k:
                    nreads += 1
                    # all transitive users must be comparisons that only guard an assertion
                    bad = None
                    todo = [ins.dst]
                    seen = set()
                    while todo and not bad:
                        r = todo.pop()
                        if r in seen:
                            continue
                        seen.add(r)
                        for ub, u in fi.users(r):
                            if u.op in ('zext', 'sext', 'trunc', 'bitcast', 'phi', 'select'):
                                todo.append(u.dst)
                            elif u.op in ('sub', 'add', 'shl', 'lshr', 'mul', 'and', 'or'):
                                # arithmetic on the exponent is fine as long as it ends in the stride of the twiddle table (below)
                                todo.append(u.dst)
                            elif u.op == 'getelementptr' and k_roots is not None and _based_on_field(fi, u.a[0], k_roots) and ('r', r) in u.a[1:]:
                                # index into the member table `roots` (2^s entries): roots[idx << (s - domainPow)] is the documented
                                # use of the capacity - the element fetched is w_n^idx whatever the capacity
                                continue
                            elif u.op == 'icmp':
                                # must feed only a branch one side of which is an assertion failure
                                for ub2, u2 in fi.users(u.dst):
                                    if u2.op != 'br' or not any(is_assert_block(fi, t) for t in u2.x):
                                        bad = u2
                            else:
                                bad = u
                    tag = 'dep-s:%s@%s' % (short, loc(mod, ins, n))
                    if bad:
                        rep.refute(tag, 'R-DEP', loc(mod, bad, n), 'the capacity exponent s flows into `%s` in %s: results would depend on the object, not only on the call arguments' % (
                            bad.text.strip().split(', !dbg')[0][:90], short))
                    else:
                        rep.ok(tag, 'R-DEP', loc(mod, ins, n), 'read of s only guards an assertion')
    rep.ok('dep-s:census', 'R-DEP', 'src/ntt_goldilocks.cpp',
           '%d reads of member s in %d methods (constructor and destructor excluded); the stride of the twiddle table roots[idx << (s - k)] is the one accepted use besides assertions' % (nreads, len(names)))


def _based_on_field(fi, v, k):
    """is pointer operand v the value loaded from member k of the object (through casts)?"""
    n = 0
    while v and v[0] == 'r' and n < 8:
        d = fi.defs.get(v[1])
        if d is None:
            return False
        ins = d[1]
        if ins.op == 'bitcast':
            v = ins.a[0]
        elif ins.op == 'load':
            return field_of_this(fi, ins.a[0]) == k
        else:
            return False
        n += 1
    return False


def is_assert_block(fi, b):
    for ins in fi.fn.blocks.get(b, []):
        c = callee_name(ins)
        if c in ('__assert_fail', 'abort', 'exit'):
            return True
    return False


def field_writes(mod, name, seen=None, depth=0):
    """{field index: site} written (transitively through calls that receive `this`) by method `name`"""
    seen = seen if seen is not None else set()
    if name in seen or depth > 6:
        return {}
    seen.add(name)
    fi = info(mod, name)
    out = {}
    this = fi.fn.params[0][1] if fi.fn.params else None
    for b in fi.fn.order:
        for ins in fi.fn.blocks[b]:
            if ins.op == 'store':
                k = field_of_this(fi, ins.a[1], this)
                if k is not None:
                    out.setdefault(k, loc(mod, ins, name))
            c = callee_name(ins)
            if c and c in mod.funcs and ins.a[1:] and ins.a[1] == ('r', this) and mod.dem.get(c, '').startswith(CLS + '::'):
                if re.match(r'^NTT_Goldilocks::~?NTT_Goldilocks\(', mod.dem[c]):
                    continue
                for k, v in field_writes(mod, c, seen, depth + 1).items():
                    out.setdefault(k, v)
    return out


def field_writes_escaped(mod, name):
    """field_writes plus members whose address is handed to a routine that stores through it (std::swap(r, other.r), std::exchange)"""
    out = dict(field_writes(mod, name))
    fi = info(mod, name)
    this = fi.fn.params[0][1] if fi.fn.params else None
    for b in fi.fn.order:
        for ins in fi.fn.blocks[b]:
            c = callee_name(ins)
            if not c or c not in mod.funcs:
                continue
            for ai, a in enumerate(ins.a[1:]):
                k = field_of_this(fi, a, this) if isinstance(a, tuple) and a and a[0] == 'r' else None
                if k is None:
                    continue
                try:
                    cf = info(mod, c)
                except Exception:
                    continue
                if ai >= len(cf.fn.params):
                    continue
                pn = cf.fn.params[ai][1]
                stores = any(i2.op == 'store' and i2.a[1] == ('r', pn) for b2 in cf.fn.order for i2 in cf.fn.blocks[b2])
                if stores or re.match(r'^(void )?std::(swap|exchange|iter_swap)', mod.dem.get(c, '')):
                    out.setdefault(k, loc(mod, ins, name))
    return out


def rule_assign(rep):
    """R-ASSIGN: an assignment operator of the transform class replaces the object as a whole: every data member is transferred.
    A member left behind (the key of the memoised tables while the tables themselves are swapped) leaves an object whose parts
    belong to two histories."""
    mod = smod()
    fields = class_fields(mod)
    ops = [n for n in mod.find_re(r'^%s::operator=\(' % CLS)]
    for n in ops:
        w = field_writes_escaped(mod, n)
        missing = sorted(nm for k, nm in fields.items() if k not in w)
        short = mod.dem[n].split('(')[0] + '(' + mod.dem[n].split('(', 1)[1]
        try:
            f_, l_ = mod.fn_loc(n)
            site = '%s:%s' % (front.rel(f_), l_)
        except Exception:
            site = 'src/ntt_goldilocks.hpp'
        if not w:
            rep.ok('assign:' + short, 'R-ASSIGN', site, 'writes no member (deleted / trivial)')
        elif missing:
            rep.refute('assign:' + short, 'R-ASSIGN', site, '%s transfers %d members but not %s: after the assignment the object holds parts of two histories '
                       '(e.g. the memoised coset tables of one object under the key of another)' % (short.split('(')[0], len(w), missing))
        else:
            rep.ok('assign:' + short, 'R-ASSIGN', site, 'every data member is transferred')
    rep.cov['assignment_operators'] = len(ops)


def rule_effect(rep):
    mod = smod()
    fields = class_fields(mod)
    rep.floor('class members resolved', len(fields), 8)
    allowed = {'r', 'r_', 'rSize'}
    pub = [n_ for n_ in own_methods(mod) if not re.match(r'^%s::operator=\(' % CLS, mod.dem[n_])]     # assignment: R-ASSIGN
    rep.floor('R-EFFECT methods', len(pub), 5)
    for n in pub:
        short = mod.dem[n].split('(')[0]
        w = field_writes(mod, n)
        names = {fields.get(k, 'field#%d' % k): site for k, site in w.items()}
        bad = {k: v for k, v in names.items() if k not in allowed}
        # a member the pinned class does not have (a cache, a scratch buffer kept between calls): whether later calls depend on
        # it is decided by the reachability closure, whose state covers every member - said here, not refuted
        newm = {k: v for k, v in bad.items() if k not in PINNED_MEMBERS}
        for k_ in sorted(newm):
            rep.note('%s writes the new member `%s` after construction (%s): covered by the state of the reachability closure' % (short, k_, newm[k_]))
        bad = {k: v for k, v in bad.items() if k in PINNED_MEMBERS}
        tag = 'effect:' + short
        if bad:
            k0 = sorted(bad)[0]
            rep.refute(tag, 'R-EFFECT', bad[k0], '%s writes member %s after construction: later calls on the same object could observe it' % (short, sorted(bad)))
        else:
            rep.ok(tag, 'R-EFFECT', mod.fn_loc(n)[0] and '%s:%s' % (front.rel(mod.fn_loc(n)[0]), mod.fn_loc(n)[1]),
                   'writes only %s (the memoised coset tables and their key)' % (sorted(names) or 'no member'))


def rule_memo_guard(rep):
    """a conditional call that refreshes memoised members from a call argument must be guarded by a test that depends on that argument"""
    mod = smod()
    pub = methods(mod, r'^NTT_Goldilocks::(NTT|INTT|extendPol)\(')
    ninst = 0
    for n in pub:
        fi = info(mod, n)
        this = fi.fn.params[0][1]
        dom = fi.dominators()
        short = mod.dem[n].split('(')[0]
        for b in fi.fn.order:
            for ins in fi.fn.blocks[b]:
                c = callee_name(ins)
                if not (c and c in mod.funcs and ins.a[1:] and ins.a[1] == ('r', this) and mod.dem.get(c, '').startswith(CLS + '::')):
                    continue
                if c == n or not field_writes(mod, c):
                    continue
                argparams = set()
                for a in ins.a[2:]:
                    if a[0] == 'r':
                        argparams |= {r for r in fi.backward_slice([a[1]]) if r in fi.params and r != this}
                if not argparams:
                    continue
                # is the call conditional?  (its block does not post-dominate the entry: approximated by "not dominating every return")
                rets = [bb for bb in fi.fn.order if fi.term[bb] is not None and fi.term[bb].op == 'ret']
                if all(b in dom[r] for r in rets):
                    continue
                ninst += 1
                # conditions controlling the call: branches in dominating blocks whose two successors differ in reaching b without...
                conds = set()
                for d in dom[b]:
                    t = fi.term[d]
                    if t is not None and t.op == 'br' and t.a and d != b:
                        conds |= set(regs_of(t.a[0]))
                # plus branches in blocks from which b is reachable on only one side
                for d in fi.fn.order:
                    t = fi.term[d]
                    if t is not None and t.op == 'br' and t.a and len(t.x) == 2:
                        r0 = b in fi.reachable_from(t.x[0])
                        r1 = b in fi.reachable_from(t.x[1])
                        if r0 != r1:
                            conds |= set(regs_of(t.a[0]))
                sl = fi.backward_slice(list(conds)) if conds else set()
                missing = [p for p in argparams if p not in sl]
                tag = 'memo:%s->%s' % (short, mod.dem[c].split('(')[0])
                if missing:
                    rep.refute(tag, 'R-MEMO', loc(mod, ins, n),
                               'members written by %s from argument %s are refreshed only under a guard that does not depend on %s: a later call with another value reuses stale state' % (
                                   mod.dem[c].split('(')[0], [m[1:] for m in missing], [m[1:] for m in missing]))
                else:
                    rep.ok(tag, 'R-MEMO', loc(mod, ins, n), 'the guard of the refreshing call depends on %s' % sorted(p[1:] for p in argparams))
    rep.floor('R-MEMO instances', ninst, 1)


def rule_omp_global(rep):
    """omp_set_num_threads / omp_set_dynamic receive only constants or write-once members (idempotent across calls)"""
    mod = smod()
    fields = class_fields(mod)
    n = 0
    for name in methods(mod):
        fi = info(mod, name)
        this = fi.fn.params[0][1] if fi.fn.params else None
        for b in fi.fn.order:
            for ins in fi.fn.blocks[b]:
                c = callee_name(ins)
                if c in ('omp_set_num_threads', 'omp_set_dynamic'):
                    n += 1
                    a = ins.a[1]
                    ok = a[0] == 'i'
                    src = 'a constant'
                    if a[0] == 'r':
                        d = fi.defs.get(a[1])
                        if d and d[1].op == 'load':
                            k = field_of_this(fi, d[1].a[0], this)
                            if k is not None and fields.get(k) in ('nThreads',):
                                ok = True
                                src = 'member ' + fields[k]
                    (rep.ok if ok else rep.refute)('ompglobal:%s@%s' % (c, loc(mod, ins, name)), 'R-EFFECT', loc(mod, ins, name),
                                                   '%s receives %s' % (c, src) if ok else '%s receives a value that is neither constant nor a write-once member' % c)
    rep.floor('omp global-state calls', n, 2)


# ------------------------------------------------------------------------------------------------ R-SHIFT, R-ALLOC, census
def rule_shift(rep, pat=r'^(NTT_Goldilocks::|BR\()', floor=5, label='transform unit'):
    """an int-typed shift with a non-constant amount whose result is widened to 64 bits"""
    mod = smod()
    nshl = 0
    for name in mod.find_re(pat):
        fi = info(mod, name)
        for b in fi.fn.order:
            for ins in fi.fn.blocks[b]:
                if ins.op == 'shl':
                    nshl += 1
                    if ins.ty == ('i', 32) and ins.a[1][0] == 'r':
                        widened = []
                        todo = [ins.dst]
                        seen = set()
                        while todo:
                            r_ = todo.pop()
                            if r_ in seen:
                                continue
                            seen.add(r_)
                            for ub, u in fi.users(r_):
                                if u.op in ('sext', 'zext') and u.ty == ('i', 64):
                                    widened.append(u)
                                elif u.op in ('add', 'sub', 'and', 'or', 'xor') and u.ty == ('i', 32):
                                    todo.append(u.dst)
                        if widened:
                            rep.refute('shift:%s@%s' % (mod.dem[name].split('(')[0], loc(mod, ins, name)), 'R-SHIFT', loc(mod, ins, name),
                                       '32-bit shift with a variable amount is widened to 64 bits: overflows (undefined behaviour) once the amount reaches 31')
    rep.floor('shl instructions inspected (%s)' % label, nshl, floor)
    rep.ok('shift:census:' + label, 'R-SHIFT', 'src/ntt_goldilocks.cpp', '%d shl instructions in the %s inspected' % (nshl, label))


def origins(fi, v, depth=0, seen=None):
    """allocation kinds / other sources a pointer value may come from"""
    seen = seen if seen is not None else set()
    out = set()
    if v[0] == 'null':
        return {'null'}
    if v[0] != 'r':
        return {'other'}
    if v[1] in seen:
        return out
    seen.add(v[1])
    if v[1] in fi.params:
        return {'param:' + v[1]}
    d = fi.defs.get(v[1])
    if d is None:
        return {'other'}
    ins = d[1]
    if ins.op == 'bitcast' or ins.op == 'getelementptr':
        return origins(fi, ins.a[0], depth + 1, seen)
    if ins.op == 'phi':
        for x, l in ins.a:
            out |= origins(fi, x, depth + 1, seen)
        return out
    if ins.op == 'select':
        return origins(fi, ins.a[1], depth + 1, seen) | origins(fi, ins.a[2], depth + 1, seen)
    if ins.op in ('call', 'invoke'):
        c = callee_name(ins)
        if c in ALLOC:
            return {ALLOC[c]}
        return {'call:' + str(c)}
    if ins.op == 'load':
        k = field_of_this(fi, ins.a[0], fi.fn.params[0][1] if fi.fn.params else '%this')
        if k is not None:
            return {'field:%d' % k}
        return {'load'}
    return {'other'}


def rule_alloc(rep):
    """R-ALLOC: every release uses the deallocator matching every allocation kind that may reach it (members and locals)"""
    mod = smod()
    fields = class_fields(mod)
    names = mod.find_re(r'^NTT_Goldilocks::')
    field_alloc = {}
    nalloc = 0
    for name in names:
        fi = info(mod, name)
        this = fi.fn.params[0][1] if fi.fn.params else None
        for b in fi.fn.order:
            for ins in fi.fn.blocks[b]:
                if callee_name(ins) in ALLOC:
                    nalloc += 1
                if ins.op == 'store':
                    k = field_of_this(fi, ins.a[1], this)
                    if k is not None and ins.ty[0] == 'p':
                        for o in origins(fi, ins.a[0]):
                            if o in PAIR:
                                field_alloc.setdefault(k, {})[o] = loc(mod, ins, name)
    nrel = 0
    for name in names:
        fi = info(mod, name)
        for b in fi.fn.order:
            for ins in fi.fn.blocks[b]:
                c = callee_name(ins)
                if c in RELEASE:
                    nrel += 1
                    kinds = {}
                    for o in origins(fi, ins.a[1]):
                        if o in PAIR:
                            kinds[o] = 'local allocation'
                        elif o.startswith('field:'):
                            k = int(o[6:])
                            for a, site in field_alloc.get(k, {}).items():
                                kinds[a] = 'member %s allocated at %s' % (fields.get(k, k), site)
                    tag = 'alloc:%s@%s' % (mod.dem[name].split('(')[0], loc(mod, ins, name))
                    bad = [(a, w) for a, w in kinds.items() if PAIR[a] != RELEASE[c]]
                    if bad:
                        rep.refute(tag, 'R-ALLOC', loc(mod, ins, name), 'memory obtained with %s (%s) is released with %s' % (bad[0][0], bad[0][1], RELEASE[c]))
                    elif kinds:
                        rep.ok(tag, 'R-ALLOC', loc(mod, ins, name), '%s matches %s' % (RELEASE[c], sorted(kinds)))
                    else:
                        rep.ok(tag, 'R-ALLOC', loc(mod, ins, name), '%s of a pointer without a visible allocation kind' % RELEASE[c])
    rep.floor('allocation sites', nalloc, 6)
    rep.floor('release sites', nrel, 6)


def rule_abort_census(rep):
    """sinks (assert / abort / exit / throw) reachable from the three entry points; each must be unreachable in the bounded tier"""
    mod = smod()
    roots = methods(mod, r'^NTT_Goldilocks::(NTT|INTT|extendPol)\(')
    seen = set()
    todo = list(roots)
    sinks = []
    while todo:
        n = todo.pop()
        if n in seen or n not in mod.funcs:
            continue
        seen.add(n)
        try:
            f_ = mod.fn_loc(n)[0]
        except Exception:
            f_ = None
        if not (f_ and front.rel(f_).startswith('src/')):       # only the library's own functions are followed
            continue
        fn = mod.fn(n)
        for lab, ins in fn.instrs():
            c = callee_name(ins)
            if c in ('__assert_fail', 'abort', 'exit', '__cxa_throw'):
                sinks.append((mod.dem[n].split('(')[0], c, loc(mod, ins, n)))
            elif c:
                todo.append(c)
    rep.floor('abort sites reachable from the transforms', len(sinks), 3)
    rep.ok('abort-census', 'R-ABORT', 'src/ntt_goldilocks.cpp', '%d sink sites reachable: %s' % (len(sinks), sorted(set(s[2] for s in sinks))))
    rep.cov['abort_sites'] = sorted(set('%s %s' % (s[1], s[2]) for s in sinks))


def rule_w_chain(rep):
    from .interp import Interp, run_global_ctors
    from .poly import FV
    mod = front.module('avx2')
    I = Interp(mod, {})
    run_global_ctors(I)
    g = [n for n in mod._globtxt if n.startswith('@_ZN10Goldilocks1WE')]
    reg = I.global_region(g[0])
    W = []
    for i in range(33):
        v = I.mem.get((reg, 8 * i))
        v = v[0] if v else None
        W.append(v.nf.cval() if isinstance(v, FV) else v)
    bad = []
    if W[0] != 1:
        bad.append('W[0] != 1')
    if W[1] != P - 1:
        bad.append('W[1] != p-1')
    for i in range(1, 33):
        if not isinstance(W[i], int) or W[i] >= P or W[i] * W[i] % P != W[i - 1]:
            bad.append('W[%d]^2 != W[%d]' % (i, i - 1))
    (rep.refute if bad else rep.ok)('w-chain', 'R-CONST', 'src/goldilocks_base_field.cpp',
                                    '; '.join(bad[:3]) if bad else 'W[0]=1, W[1]=p-1, W[i]^2=W[i-1] for i<=32: W[i] is a primitive 2^i-th root of unity')
    sg = [n for n in mod._globtxt if n.startswith('@_ZN10Goldilocks5SHIFTE')]
    if sg:
        r2 = I.global_region(sg[0])
        v = I.mem.get((r2, 0))
        v = v[0] if v else None
        v = v.nf.cval() if isinstance(v, FV) else v
        ok = v == 7 and pow(7, (P - 1) // 2, P) != 1
        (rep.ok if ok else rep.refute)('shift-const', 'R-CONST', 'src/goldilocks_base_field.cpp', 'SHIFT = %s; 7 is a quadratic non-residue (coset disjoint from the subgroup)' % v)


def rule_shift_const(rep):
    rule_w_chain(rep)


def rule_intt_null(rep):
    """INTT forwards to NTT with inverse = true and with a destination that is src when dst is null"""
    mod = smod()
    from . import harness as _h
    names = [n_ for n_ in _h.family(mod, r'^NTT_Goldilocks::INTT\(') if not is_local_entity(mod.dem[n_])]
    rep.floor('INTT definitions', len(names), 1)
    for n in names:
        fi = info(mod, n)
        calls = [(b, i) for b in fi.fn.order for i in fi.fn.blocks[b] if callee_name(i) and re.match(r'^NTT_Goldilocks::NTT\(', mod.dem.get(callee_name(i), ''))]
        if len(calls) != 1:
            rep.incomplete('intt-forward', 'R-FORWARD', loc(mod, fi.fn.blocks[fi.fn.order[0]][0], n), 'INTT does not forward to NTT exactly once (%d calls)' % len(calls))
            continue
        b, ins = calls[0]
        # positional: NTT(this, dst, src, size, ncols, buffer, nphase, nblock, inverse, extend); INTT(this, dst, src, ...)
        a = ins.a[1:]
        my = [p for t, p in fi.fn.params]
        probs = []
        if len(a) < 10 or len(my) < 3:
            probs.append('unexpected arity of the forwarding call')
        else:
            if a[8] != ('i', 1):
                probs.append('inverse flag passed to NTT is %r, not true' % (a[8],))
            org = origins(fi, a[1])
            if not ({'param:' + my[1], 'param:' + my[2]} <= org):
                probs.append('destination passed to NTT does not select between dst and src (origins %s)' % sorted(org))
            if a[2] != ('r', my[2]):
                probs.append('source is not forwarded unchanged')
        hard = [p_ for p_ in probs if p_.startswith('inverse flag')]
        if hard:
            rep.refute('intt-forward', 'R-FORWARD', loc(mod, ins, n), '; '.join(hard))
        elif probs:
            # another way of forwarding (e.g. the null destination left to NTT, which treats it as in place): what the call delivers
            # is decided by the bounded tier (dst = null / src / other configurations), not by the shape of the forwarding call
            rep.note('INTT forwards to NTT in another shape than on the pinned tree (%s): decided by the bounded tier' % '; '.join(probs))
            rep.ok('intt-forward', 'R-FORWARD', loc(mod, ins, n), 'INTT forwards to NTT with inverse = true (destination handling decided by the bounded tier)')
        else:
            rep.ok('intt-forward', 'R-FORWARD', loc(mod, ins, n), 'INTT = NTT(dst==NULL ? src : dst, src, ..., inverse=true, extend)')


def rule_powtwoinv(rep):
    """constructor tables of a bounded object: powTwoInv[i]*2^i = 1, roots[i] = w^i with w = W[log2 capacity]"""
    from .nttmodel import NTTWorld
    from .poly import FV
    from .interp import Ptr
    W = NTTWorld('avx2')
    fields = class_fields(W.mod)
    off = {}
    for i, nm in fields.items():
        off[nm] = ir.field_offset(W.mod, ('s', '%class.' + CLS), i)[0]
    for cap in (1, 2, 8, 64):
        this = W.construct(cap, 1, 1)
        I = W.I
        lg = cap.bit_length() - 1

        def tab(nm, n):
            p = I.mem[(this.reg, off[nm])][0]
            out = []
            for i in range(n):
                v = I.mem.get((p.reg, 8 * i))
                v = v[0] if v else None
                out.append(v.nf.cval() if isinstance(v, FV) else v)
            return out
        try:
            pti = tab('powTwoInv', lg + 1)
            roots = tab('roots', cap)
        except (KeyError, AttributeError) as e:
            rep.incomplete('ctor-tables:cap=%d' % cap, 'R-CONST', 'src/ntt_goldilocks.hpp', 'object tables not found: %s' % e)
            continue
        w = W.W(lg)
        bad = []
        for i, v in enumerate(pti):
            if not isinstance(v, int) or v * pow(2, i, P) % P != 1:
                bad.append('powTwoInv[%d]*2^%d != 1' % (i, i))
        for i, v in enumerate(roots):
            if not isinstance(v, int) or v % P != pow(w, i, P):
                bad.append('roots[%d] != w^%d' % (i, i))
        (rep.refute if bad else rep.ok)('ctor-tables:cap=%d' % cap, 'R-CONST', 'src/ntt_goldilocks.hpp',
                                        '; '.join(bad[:3]) if bad else 'powTwoInv[i] = 2^-i (i<=%d), roots[i] = W[%d]^i (i<%d)' % (lg, lg, cap))


def rule_compute_r(rep):
    """after extendPol(N) the memoised tables hold r[i] = 7^i and r_[i] = 7^i / N"""
    from .nttmodel import NTTWorld
    from .poly import FV
    from .interp import Ptr, NULL
    W = NTTWorld('avx2')
    fields = class_fields(W.mod)
    off = {nm: ir.field_offset(W.mod, ('s', '%class.' + CLS), i)[0] for i, nm in fields.items()}
    for N in (1, 4, 16):
        this = W.construct(16, 1, 1)
        io = W.buffer('io', 16)
        try:
            W.I.call(W.names['ext'], [this, Ptr(io, 0), Ptr(io, 0), 16, N, 1, NULL, 3, 1])
        except Exception as e:
            rep.incomplete('compute-r:N=%d' % N, 'R-CONST', 'src/ntt_goldilocks.hpp', str(e)[:200])
            continue
        I = W.I
        bad = []
        ninv = pow(N, P - 2, P)
        for nm, scale in (('r', 1), ('r_', ninv)):
            p = I.mem[(this.reg, off[nm])][0]
            for i in range(N):
                v = I.mem.get((p.reg, 8 * i))
                v = v[0] if v else None
                v = v.nf.cval() if isinstance(v, FV) else v
                if not isinstance(v, int) or v % P != pow(7, i, P) * scale % P:
                    bad.append('%s[%d] != 7^%d%s' % (nm, i, i, '/N' if scale != 1 else ''))
        key = I.mem.get((this.reg, off.get('rSize', -1)))
        if not key or key[0] != N:
            bad.append('the key of the memoised table is %s, not N=%d' % (key[0] if key else None, N))
        (rep.refute if bad else rep.ok)('compute-r:N=%d' % N, 'R-CONST', 'src/ntt_goldilocks.hpp',
                                        '; '.join(bad[:3]) if bad else 'r[i] = 7^i, r_[i] = 7^i/N for i < %d, key = N' % N)


# ------------------------------------------------------------------------------------------------ alignment typestate
def ptr_alignment(mod, fi, v, need, depth=0, seen=None):
    """(ok, reason): is pointer operand v provably `need`-byte aligned?"""
    seen = seen if seen is not None else set()
    if v[0] == 'g':
        return True, 'global'
    if v[0] in ('cgep', 'ccast'):
        return True, 'constant expression on a global'
    if v[0] != 'r':
        return False, 'unknown operand'
    if v[1] in seen or depth > 12:
        return True, 'cycle'
    seen.add(v[1])
    if v[1] in fi.params:
        t = dict((p, t_) for t_, p in fi.fn.params)[v[1]]
        if t[0] == 'p' and (t[1][0] == 'v' or (t[1][0] == 'a' and t[1][2][0] == 'v')):
            return True, 'reference to a vector object'
        nm = v[1].rstrip('0123456789')
        if v[1].endswith('_a') or '_a.' in v[1]:
            return True, 'parameter %s carries the aligned contract (_a)' % v[1][1:]
        return False, 'parameter %s has no alignment contract' % v[1][1:]
    d = fi.defs.get(v[1])
    if d is None:
        return False, 'undefined'
    ins = d[1]
    if ins.op == 'alloca':
        al = ins.x or 1
        return (al >= need), 'local object aligned to %d' % al
    if ins.op == 'bitcast':
        return ptr_alignment(mod, fi, ins.a[0], need, depth + 1, seen)
    if ins.op == 'getelementptr':
        ok, why = ptr_alignment(mod, fi, ins.a[0], need, depth + 1, seen)
        if not ok:
            return ok, why
        # constant byte offset must be a multiple of `need`
        off = 0
        cur = ins.ty
        for j, ix in enumerate(ins.a[1:]):
            if ix[0] != 'i':
                # variable index: fine only if the element stride is a multiple of need
                if j == 0:
                    st = ir.sizeof(mod, cur)
                else:
                    cur = cur[2] if cur[0] in ('a', 'v') else cur
                    st = ir.sizeof(mod, cur)
                if st % need:
                    return False, 'variable index with element stride %d' % st
                continue
            i = ix[1]
            if j == 0:
                off += i * ir.sizeof(mod, cur)
            elif cur[0] in ('s', 'lit'):
                o, cur = ir.field_offset(mod, cur, i)
                off += o
            else:
                cur = cur[2]
                off += i * ir.sizeof(mod, cur)
        if off % need:
            return False, 'offset %d bytes from an aligned base is not a multiple of %d' % (off, need)
        return True, why
    if ins.op in ('phi', 'select'):
        vals = [x for x, l in ins.a] if ins.op == 'phi' else list(ins.a[1:])
        for x in vals:
            ok, why = ptr_alignment(mod, fi, x, need, depth + 1, seen)
            if not ok:
                return ok, why
        return True, 'all incoming pointers aligned'
    if ins.op == 'load':
        return False, 'pointer loaded from memory'
    if ins.op in ('call', 'invoke'):
        c = callee_name(ins)
        if c in ALLOC:
            return (need <= 16), '%s returns 16-byte aligned memory' % c
        return False, 'pointer returned by a call'
    return False, ins.op


def rule_align(rep):
    """aligned vector accesses (IR align >= 32) and calls of aligned-contract (_a) routines only through provably aligned pointers"""
    nacc = 0
    ncall = 0
    for cfg in ('avx2', 'avx512'):
        mod = smod(cfg)
        for name in mod.funcs:
            d = mod.dem.get(name, '')
            if not re.match(r'^(Goldilocks3?|PoseidonGoldilocks|NTT_Goldilocks|MerklehashGoldilocks)::', d):
                continue
            if cfg == 'avx512' and '512' not in d:
                continue
            fi = info(mod, name)
            short = d.split('(')[0]
            for b in fi.fn.order:
                for ins in fi.fn.blocks[b]:
                    if ins.op in ('load', 'store') and ins.ty[0] == 'v' and (ins.x or 1) >= 32:
                        nacc += 1
                        pv = ins.a[0] if ins.op == 'load' else ins.a[1]
                        ok, why = ptr_alignment(mod, fi, pv, ins.x)
                        tag = 'align:%s/%s@%s#%d' % (cfg, short, loc(mod, ins, name), nacc)
                        if not ok:
                            rep.refute(tag, 'R-ALIGN', loc(mod, ins, name), '%d-byte aligned vector %s through a pointer that is not provably aligned: %s' % (ins.x, ins.op, why))
                    c = callee_name(ins)
                    if c and c in mod.funcs and re.match(r'^(Goldilocks|PoseidonGoldilocks)::\w+_a\(', mod.dem.get(c, '')):
                        cf = mod.fn(c)
                        need = 64 if '512' in mod.dem[c] else 32
                        for (t, pn), a in zip(cf.params, ins.a[1:]):
                            if pn and pn.endswith('_a') and t[0] == 'p':
                                ncall += 1
                                ok, why = ptr_alignment(mod, fi, a, need)
                                tag = 'align-call:%s/%s->%s@%s' % (cfg, short, mod.dem[c].split('(')[0], loc(mod, ins, name))
                                if ok:
                                    rep.ok(tag, 'R-ALIGN', loc(mod, ins, name), 'argument for %s is %d-byte aligned (%s)' % (pn[1:], need, why))
                                else:
                                    rep.refute(tag, 'R-ALIGN', loc(mod, ins, name), 'argument for aligned parameter %s is not provably %d-byte aligned: %s' % (pn[1:], need, why))
    rep.floor('aligned vector accesses inspected', nacc, 200)
    rep.floor('calls of aligned-contract routines', ncall, 15)
    rep.ok('align:census', 'R-ALIGN', 'src/goldilocks_base_field_avx.hpp', '%d aligned vector accesses and %d aligned-contract call arguments inspected' % (nacc, ncall))


# ------------------------------------------------------------------------------------------------ R-NARROW
NARROW_PAT = (r'^(NTT_Goldilocks::|BR\(|PoseidonGoldilocks::(merkletree|linear_hash)|MerklehashGoldilocks::|Goldilocks::(parcpy|parSetZero)\(|'
              r'Goldilocks::(copy|add|sub|mul)_(avx512|avx|batch)\(|Goldilocks3::\w+_(avx512|avx|batch)\()')
# the one routine whose 32-bit masks on a 64-bit value are its purpose: BR reverses the low 32 bits of a row index (domains have at most
# 2^32 rows: the root table has 33 entries)
MASK_EXEMPT = re.compile(r'^BR\(')
ADDRESS_SINKS = re.compile(r'^(llvm\.mem(cpy|set|move)\.|malloc$|calloc$|_Znam$|_Znwm$|aligned_alloc$|llvm\.x86\.avx(2|512)\.(mask\.)?(gather|scatter))')


FP_PASS = ('fadd', 'fsub', 'fmul', 'fdiv', 'frem', 'fneg', 'fpext', 'fptrunc', 'select', 'phi', 'freeze')
FP_ROUNDERS = re.compile(r'^(llvm\.(ceil|floor|round|trunc|rint|nearbyint|fabs|fmuladd|fma|sqrt|minnum|maxnum)\.|ceilf?$|floorf?$|roundf?$|truncf?$|'
                         r'_ZSt(4ceil|5floor|5round|5trunc)[fd]$)')


def rule_fpround(rep, family_pat, configs=('avx2', 'avx512'), floor_double=0):
    """R-FPROUND (all shapes): an integer converted to floating point whose value comes back as an integer (a block count written
    as ceil(size / (float)RATE), floor((n - 1) / 2) + 1 on doubles ...) is exact only below 2^mantissa.  Single precision (24 bits)
    is refuted unless a dominating branch bounds the operand below 2^24: the property quantifies over every size.  Double
    precision (53 bits) is accepted and counted: 2^53 elements exceed any address space."""
    pat = re.compile(family_pat)
    nsites = 0
    ndouble = 0
    seen_sites = set()
    for cfg in configs:
        try:
            mod = front.module(cfg, omp=True, sroa=True)
        except Exception:
            continue
        names = []
        files = set()
        for n in mod.funcs:
            if pat.search(mod.dem.get(n, n)) and not is_local_entity(mod.dem.get(n, n)):
                names.append(n)
                try:
                    files.add(mod.fn_loc(n)[0])
                except Exception:
                    pass
        for n in mod.funcs:
            if 'omp_outlined' in n or is_local_entity(mod.dem.get(n, '')):
                try:
                    if mod.fn_loc(n)[0] in files and n not in names:
                        names.append(n)
                except Exception:
                    pass
        # integer-argument overloads of the rounding functions the family calls (std::floor<unsigned long> converts inside)
        extra = []
        for n in list(names):
            try:
                fn = mod.fn(n)
            except Exception:
                continue
            for lab, ins in fn.instrs():
                c = callee_name(ins)
                if c and c in mod.funcs and re.match(r'^_ZSt(4ceil|5floor|5round|5trunc)I', c) and c not in names and c not in extra:
                    extra.append(c)
        for name in names + extra:
            try:
                fi = info(mod, name)
            except Exception:
                continue
            b_of = {}
            for b in fi.fn.order:
                for ins in fi.fn.blocks[b]:
                    b_of[id(ins)] = b
            for b in fi.fn.order:
                for ins in fi.fn.blocks[b]:
                    if ins.op not in ('uitofp', 'sitofp') or not (ins.x and ins.x[0] == 'i' and ins.x[1] >= 32) or ins.ty[0] != 'f':
                        continue
                    # forward slice through floating-point arithmetic; the narrowest format on the way decides the mantissa
                    mant = {16: 11, 32: 24, 64: 53, 80: 64, 128: 113}.get(ins.ty[1], 24)
                    back = None
                    todo = [(ins.dst, mant)]
                    seen = {}
                    while todo and back is None:
                        r_, m_ = todo.pop()
                        if r_ in seen and seen[r_] <= m_:
                            continue
                        seen[r_] = m_
                        for ub_, u in fi.users(r_):
                            if u.op in ('fptoui', 'fptosi'):
                                back = (u, m_)
                                break
                            if u.op in FP_PASS and u.dst:
                                m2 = m_
                                if u.op == 'fptrunc' and u.ty[0] == 'f':
                                    m2 = min(m_, {16: 11, 32: 24, 64: 53}.get(u.ty[1], m_))
                                todo.append((u.dst, m2))
                            elif u.op in ('call', 'invoke') and u.dst:
                                c = callee_name(u)
                                if c and FP_ROUNDERS.match(c):
                                    todo.append((u.dst, m_))
                            elif u.op == 'ret' and name in extra:
                                back = (u, m_)      # std::floor<integer>: the caller converts the result back
                                break
                    if back is None:
                        continue
                    site = loc(mod, ins, name)
                    key = (mod.dem.get(name, name), site, back[1])
                    if key in seen_sites:
                        continue
                    seen_sites.add(key)
                    tag = 'fpround:%s@%s' % (mod.dem.get(name, name).split('(')[0], site)
                    if back[1] >= 53:
                        ndouble += 1
                        rep.ok(tag, 'R-FPROUND', site, 'integer -> double -> integer: exact below 2^53 (more elements than any address space holds)')
                        continue
                    nsites += 1
                    ub = _dominating_upper_bound(fi, b_of[id(ins)], ins.a[0][1]) if ins.a[0][0] == 'r' else None
                    if ins.a[0][0] == 'i':
                        ub = ins.a[0][1]
                    if ub is not None and ub < (1 << back[1]):
                        rep.ok(tag, 'R-FPROUND', site, 'integer -> %d-bit-mantissa float -> integer with the operand bounded by %d on every path to the conversion' % (back[1], ub))
                    else:
                        rep.refute(tag, 'R-FPROUND', site, 'a %d-bit integer goes through a floating-point format with a %d-bit mantissa and comes back as an integer (%s): '
                                   'the value is rounded once it exceeds 2^%d, so counts / indices derived from it are wrong for larger sizes' % (
                                       ins.x[1], back[1], loc(mod, back[0], name), back[1]))
    rep.cov['fp_roundtrip_sites_single'] = nsites
    rep.cov['fp_roundtrip_sites_double'] = ndouble
    if floor_double:
        rep.floor('R-FPROUND sites (double precision, confirmed on the pinned tree)', ndouble, floor_double)


def rule_fpround_ntt(rep):
    rule_fpround(rep, r'^(NTT_Goldilocks::|BR\()')


def rule_narrow(rep, configs=('avx2', 'avx512'), family=None):
    """R-NARROW (all shapes): a shape-derived integer that is narrowed below 64 bits - an explicit truncation, or a loop-carried
    counter narrower than 32 bits - must not reach an address computation, a copy length or an allocation size inside the
    routine.  (Arguments of ordinary calls and shift amounts are log-scale or schedule quantities on the pinned tree and are
    not followed.)  This is the class of defect F11 repaired; it is decided for every shape, not for the explored ones."""
    nsites = 0
    nfun = 0
    for cfg in configs:
        mod = front.module(cfg, omp=True, sroa=True)
        pat = re.compile(family or NARROW_PAT)
        files = set()
        names = []
        for n in mod.funcs:
            if pat.search(mod.dem.get(n, n)):
                names.append(n)
                try:
                    files.add(mod.fn_loc(n)[0])
                except Exception:
                    pass
        for n in mod.funcs:
            if 'omp_outlined' in n:
                try:
                    if mod.fn_loc(n)[0] in files:
                        names.append(n)
                except Exception:
                    pass
        # file-local helpers the routines call (a slice-size helper ...): in them a narrowed value that is RETURNED is handed to a
        # routine that turns it into addresses and lengths
        helpers = set()
        for n in list(names):
            try:
                fn_ = mod.fn(n)
            except Exception:
                continue
            for lab_, ins_ in fn_.instrs():
                c_ = callee_name(ins_)
                if c_ and c_ in mod.funcs and c_ not in names and c_ not in helpers:
                    try:
                        f_ = mod.fn_loc(c_)[0]
                    except Exception:
                        f_ = None
                    d_ = mod.dem.get(c_, c_)
                    if f_ in files and '::' not in d_.split('(')[0] and mod.fn(c_).ret == ('i', 64):
                        helpers.add(c_)
        for name in names + sorted(helpers):
            try:
                fi = info(mod, name)
            except Exception:
                continue
            nfun += 1
            seeds = []
            b_of = {}
            for b in fi.fn.order:
                for ins in fi.fn.blocks[b]:
                    b_of[id(ins)] = b
                    if ins.op == 'trunc' and ins.ty[0] == 'i' and ins.ty[1] in (8, 16, 32) and ins.x and ins.x[0] == 'i' and ins.x[1] >= 32 and ins.x[1] > ins.ty[1]:
                        src = ins.a[0]
                        if src[0] != 'r':
                            continue
                        d = fi.defs.get(src[1])
                        small = False
                        if d is not None:
                            di = d[1]
                            if di.op == 'and' and any(a[0] == 'i' and 0 <= a[1] < (1 << ins.ty[1]) for a in di.a):
                                small = True
                            if di.op == 'urem' and di.a[1][0] == 'i' and di.a[1][1] <= (1 << ins.ty[1]):
                                small = True
                            if di.op in ('zext', 'sext') and di.x and di.x[0] == 'i' and di.x[1] <= ins.ty[1]:
                                small = True
                            if di.op == 'lshr' and di.a[1][0] == 'i' and di.a[1][1] >= ins.x[1] - ins.ty[1]:
                                small = True
                        if not small:
                            seeds.append((ins, 'a %d-bit value truncated to %d bits' % (ins.x[1], ins.ty[1])))
                    if (ins.op == 'and' and ins.ty == ('i', 64) and not MASK_EXEMPT.search(mod.dem.get(name, name))
                            and any(a[0] == 'i' and isinstance(a[1], int) and (1 << 31) <= a[1] < (1 << 32) and (a[1] | (a[1] - 1)) == 0xFFFFFFFF and a[1] != 0xFFFFFFFF
                                    for a in ins.a)):
                        # x & 0xFFFFFFC0 on a 64-bit value: an alignment mask computed in 32 bits (`~(LINE - 1)` with an unsigned int
                        # LINE) is zero-extended and clears bits 32..63 as well - a narrowing without a trunc
                        seeds.append((ins, 'a 64-bit value masked with the 32-bit alignment mask 0x%x (bits 32..63 are cleared too)' % [a[1] for a in ins.a if a[0] == 'i'][0]))
                    if ins.op == 'phi' and ins.ty in (('i', 8), ('i', 16)) and b in _loop_headers(fi):
                        seeds.append((ins, 'a %d-bit loop-carried counter' % ins.ty[1]))
            for ins, what in seeds:
                nsites += 1
                hit = None
                # an upper bound on the narrowed value known from the branch conditions that dominate the narrowing
                # (`if (stride <= K) { int32_t s = stride; ... }`): the slice carries the bound; arithmetic in the narrow type
                # that may exceed the signed range drops it; a bounded value reaching an address is fine
                ub0 = None
                if ins.op == 'trunc' and ins.a[0][0] == 'r':
                    ub0 = _dominating_upper_bound(fi, b_of[id(ins)], ins.a[0][1])
                    if ub0 is not None and ub0 >= (1 << (ins.ty[1] - 1)):
                        ub0 = None
                todo = [(ins.dst, ub0)]
                seen = {}
                while todo and hit is None:
                    r_, ub = todo.pop()
                    if r_ in seen and (seen[r_] is None or (ub is not None and ub <= seen[r_])):
                        continue
                    seen[r_] = ub
                    for ub_, u in fi.users(r_):
                        if u.op == 'getelementptr':
                            if any(a == ('r', r_) for a in u.a[1:]) and ub is None:
                                hit = (u, 'an address computation')
                                break
                        elif u.op == 'ret' and name in helpers and ub is None:
                            hit = (u, 'the value this helper returns to a routine that computes addresses and lengths from it')
                            break
                        elif u.op == 'call':
                            c = callee_name(u)
                            if c and ADDRESS_SINKS.match(c) and ub is None:
                                hit = (u, 'a call of %s' % c)
                                break
                        elif u.op in ('shl', 'lshr', 'ashr'):
                            if u.a[0] == ('r', r_):
                                k = u.a[1][1] if u.a[1][0] == 'i' else None
                                nb = None
                                if ub is not None and k is not None:
                                    nb = (ub << k) if u.op == 'shl' else (ub >> k)
                                    if u.ty[0] == 'i' and nb >= (1 << (u.ty[1] - 1)):
                                        nb = None
                                todo.append((u.dst, nb))
                        elif u.op in ('add', 'sub', 'mul', 'udiv', 'sdiv', 'urem', 'srem', 'and', 'or', 'xor', 'sext', 'zext', 'trunc', 'phi', 'select',
                                      'insertelement', 'shufflevector', 'bitcast', 'freeze'):
                            if not u.dst:
                                continue
                            nb = None
                            if ub is not None:
                                other = [a for a in u.a if a != ('r', r_)] if u.op != 'phi' else []
                                kc = other[0][1] if (len(other) == 1 and other[0][0] == 'i' and isinstance(other[0][1], int)) else None
                                if u.op in ('sext', 'zext', 'bitcast', 'freeze', 'insertelement', 'shufflevector'):
                                    nb = ub
                                elif u.op == 'mul' and kc is not None and 0 <= kc < (1 << 31):
                                    nb = ub * kc
                                elif u.op == 'add' and kc is not None and 0 <= kc < (1 << 31):
                                    nb = ub + kc
                                elif u.op in ('and', 'urem', 'udiv', 'lshr') and kc is not None:
                                    nb = ub
                                elif u.op == 'trunc':
                                    nb = ub if (u.ty[0] == 'i' and ub < (1 << (u.ty[1] - 1))) else None
                                if nb is not None and u.ty[0] == 'i' and u.ty[1] <= 32 and nb >= (1 << (u.ty[1] - 1)):
                                    nb = None       # may leave the signed range of the narrow type
                            todo.append((u.dst, nb))
                site = loc(mod, ins, name)
                tag = 'narrow:%s@%s' % (mod.dem.get(name, name).split('(')[0], site)
                if hit:
                    rep.refute(tag, 'R-NARROW', site, '%s reaches %s (%s): wrong address / length once the value no longer fits' % (what, hit[1], loc(mod, hit[0], name)))
                else:
                    rep.ok(tag, 'R-NARROW', site, '%s does not reach an address, a copy length or an allocation size in this routine' % what)
    rep.ok('narrow:census', 'R-NARROW', 'src', '%d narrowing sites in %d shape-driven routines inspected' % (nsites, nfun))
    rep.floor('shape-driven routines inspected for narrowing', nfun, 300 if family is None else 4)
    return nsites


def _dominating_upper_bound(fi, blk, reg):
    """an upper bound on register `reg` that holds in block `blk` because of the conditional branches that dominate it"""
    dom = fi.dominators()
    best = None
    for d in dom.get(blk, ()):
        if d == blk:
            continue
        term = fi.fn.blocks[d][-1] if fi.fn.blocks[d] else None
        if term is None or term.op != 'br' or not term.a:
            continue
        cond = term.a[0]
        if cond[0] != 'r':
            continue
        cd = fi.defs.get(cond[1])
        if cd is None or cd[1].op != 'icmp':
            continue
        ic = cd[1]
        tsucc, fsucc = term.x[0], term.x[1]
        on_true = tsucc in dom.get(blk, ()) and fsucc not in dom.get(blk, ())
        on_false = fsucc in dom.get(blk, ()) and tsucc not in dom.get(blk, ())
        if not (on_true or on_false):
            continue
        a0, a1 = ic.a[0], ic.a[1]
        pred = ic.x
        if a0 == ('r', reg) and a1[0] == 'i':
            c = a1[1]
        elif a1 == ('r', reg) and a0[0] == 'i':
            c = a0[1]
            pred = {'ult': 'ugt', 'ule': 'uge', 'ugt': 'ult', 'uge': 'ule', 'slt': 'sgt', 'sle': 'sge', 'sgt': 'slt', 'sge': 'sle'}.get(pred, pred)
        else:
            continue
        if c >= (1 << 63):
            continue
        ub = None
        if on_true:
            ub = {'ult': c - 1, 'ule': c, 'slt': c - 1, 'sle': c, 'eq': c}.get(pred)
        else:
            ub = {'ugt': c, 'uge': c - 1, 'sgt': c, 'sge': c - 1, 'ne': c}.get(pred)
        if ub is not None and ub >= 0 and (best is None or ub < best):
            best = ub
    return best


def _loop_headers(fi):
    h = getattr(fi, '_hdrs', None)
    if h is None:
        dom = fi.dominators()
        h = set()
        for b, ss in fi.succ.items():
            for x in ss:
                if x in dom[b]:
                    h.add(x)
        fi._hdrs = h
    return h
