"""Rule checkers over the IR / AST (DESIGN §4)."""
