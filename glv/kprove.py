"""Proving kernel contracts in kernel mode: obligations per lane, per precondition box, per partition cell."""
import itertools
from . import contracts, front
from .interp import Interp, run_global_ctors
from .kernel import (KInterp, KV, KPtr, Case, St, Undecided, sym64, BOXES, TS_HI, final_poly, witness_search, const, Mask, decide_gt)
from .poly import Poly, C, P, M64, M32, MSB
from .ir import IRError

_gc = {}


def kernel_globals(mod):
    """concrete values of the constant globals the kernels read (P, P_n, MSB, sqmask, CQ, ZR, TWO32 ...)"""
    k = id(mod)
    if k in _gc:
        return _gc[k]
    I = Interp(mod, {}, {'log_access': False})
    run_global_ctors(I)
    for g in list(mod._globtxt):
        if g.startswith('@_ZL') or g.startswith('@_ZN10Goldilocks') or g.startswith('@_ZN11gl64_device'):
            try:
                gl = mod.glob(g)
                from .ir import sizeof
                if sizeof(mod, gl.ty) <= 512:
                    I.global_region(g)
            except Exception:
                pass
    out = {}
    for (reg, off), (v, sz) in I.mem.items():
        if reg.kind == 'global' and isinstance(v, int) and isinstance(off, int) and sz in (4, 8):
            out[(reg.name, off)] = v
    _gc[k] = out
    return out


def product_summary(kind, sig, viol):
    """summary of an exact-product kernel: fresh limbs of c_h, c_l with the definitional equation c_h*2^64+c_l = a*b"""
    def f(K, st, args):
        c = st.case.copy()
        st = st.fork(c)
        lane = K.lane
        if kind == 'sq':
            ch, cl, a = args
            A = K.tokv(c, K.load_cell(st, KPtr(a.obj, a.off + 8 * lane)))
            B = A
        else:
            ch, cl, a, b = args
            A = K.tokv(c, K.load_cell(st, KPtr(a.obj, a.off + 8 * lane)))
            B = K.tokv(c, K.load_cell(st, KPtr(b.obj, b.off + 8 * lane)))
        if A.sh or B.sh:
            viol.append((sig, 'operand is a shifted value'))
        if kind == 'm72' and B.hi > 255:
            viol.append((sig, 'second operand may reach %d, contract wants < 2^8' % B.hi))
        hmax = min(M64 - 1, (A.hi * B.hi) >> 64)
        H = c.fresh('H', 0, hmax >> 32)
        L = c.fresh('L', 0, min(M32 - 1, hmax))
        lh = c.fresh('lh', 0, M32 - 1)
        ll = c.fresh('ll', 0, M32 - 1)
        prod = A.p * B.p
        c.defs.append(('limbs', prod, [ll, lh, L, H], [(0, 32), (32, 32), (64, 32), (96, 32)]))
        Hk, Lk, lhk, llk = [KV(Poly.var(x), c.box[x][0], c.box[x][1], w=32) for x in (H, L, lh, ll)]
        CH = KV(M32 * Hk.p + Lk.p, 0, hmax)
        CL = KV(M32 * lhk.p + llk.p, 0, M64 - 1)
        c.cache[(CH.p.key(), 32)] = (Hk, Lk)
        c.cache[(CL.p.key(), 32)] = (lhk, llk)
        c.subst.append((ll, prod - M64 * CH.p - M32 * lhk.p, True))
        st.mem[KPtr(ch.obj, ch.off + 8 * lane)] = CH
        st.mem[KPtr(cl.obj, cl.off + 8 * lane)] = CL
        return [(st, None)]
    return f


def int_summaries(mod, viol):
    S = {}
    for c in contracts.INT:
        try:
            n = mod.find(c['sig'])
        except KeyError:
            continue
        kind = 'sq' if c['op'] == 'sq128' else ('m72' if c.get('ch_max') else 'm128')
        S[n] = product_summary(kind, c['sig'], viol)
    return S


class TimeBudget(BaseException):
    """raised by time_limit; derives from BaseException so that the per-cell `except Undecided` handlers do not swallow it"""


class time_limit:
    """wall-clock budget for one kernel-mode analysis (main thread of the process only): running out is ANALYSIS-INCOMPLETE
    (Undecided), never a verdict.  A check must not run for an unbounded time on a changed tree."""

    def __init__(s, seconds):
        s.seconds = seconds
        s.old = None

    def __enter__(s):
        import signal, threading
        s.active = threading.current_thread() is threading.main_thread() and hasattr(signal, 'setitimer')
        if s.active:
            def handler(signum, frame):
                raise TimeBudget('time budget of %d s for this kernel-mode analysis exhausted' % s.seconds)
            s.old = signal.signal(signal.SIGALRM, handler)
            signal.setitimer(signal.ITIMER_REAL, s.seconds)
        return s

    def __exit__(s, *a):
        import signal
        if s.active:
            signal.setitimer(signal.ITIMER_REAL, 0)
            signal.signal(signal.SIGALRM, s.old)
        return False


class Outcome:
    def __init__(s):
        s.cells = 0
        s.failures = []     # dicts: lane, box, detail, witness
        s.undecided = []    # strings
        s.max_out = 0
        s.asm = []
        s.viol = []
        s.callsites = 0


def spec_poly(op, A):
    if op == 'add':
        return A[0] + A[1]
    if op == 'sub':
        return A[0] - A[1]
    if op == 'mul':
        return A[0] * A[1]
    if op == 'sq':
        return A[0] * A[0]
    if op in ('id', 'shift'):
        return A[0]
    if op == 'red':
        return A[0] * M64 + A[1]
    raise Undecided('spec op ' + op)


def prove(mod, name, ins, outs, spec, W=1, lanes=None, exact=False, alias=None, use_int_summaries=True, extra_mem=None,
          seed=0, elem_stride=8, budget=4000, ret_out=False, extra_ptrs=None, in_modes=None, alias_in=None):
    """ins: [(symbol name, typestate, shifted)], outs: [(typestate or None, shifted)] (outputs precede inputs in the argument list)
    spec: function(list of input polys) -> poly that sum_k out_k * 2^(64*(nout-1-k)) must equal (mod p, or over Z if exact)
    alias: {input index: output index} the input operand is the same object as the output"""
    gc = kernel_globals(mod)
    res = Outcome()
    lanes = list(range(W)) if lanes is None else lanes
    nout = len(outs)
    for lane in lanes:
        pres = [BOXES[ts] for (_, ts, _) in ins]
        for boxes in itertools.product(*pres):
            viol = []
            S = int_summaries(mod, viol) if use_int_summaries else {}
            S.pop(name, None)
            K = KInterp(mod, lane=lane, summaries=S, globals_=gc, budget=budget)
            c = Case()
            st = St(c, {}, {})
            ptrs = [KPtr('out%d' % i, 0) for i in range(nout if not ret_out else 0)]
            A = []
            inptr = {}
            for i, ((nm, ts, sh), bx) in enumerate(zip(ins, boxes)):
                if alias_in and i in alias_in:
                    # operand i is the same object as the earlier input operand alias_in[i]
                    A.append(A[alias_in[i]])
                    ptrs.append(inptr[alias_in[i]])
                    continue
                v = sym64(c, nm, bx, sh)
                A.append(Poly.var(nm + 'h') * M32 + Poly.var(nm + 'l'))
                mode = in_modes[i] if in_modes else 'ptr'
                if mode == 'val':
                    ptrs.append(v)
                    continue
                if mode == 'val32':
                    ptrs.append(KV(Poly.var(nm + 'l'), bx[1][0], bx[1][1], 0, None, 32))
                    continue
                if alias and i in alias:
                    p = ptrs[alias[i]]
                else:
                    p = KPtr('in%d' % i, 0)
                ptrs.append(p)
                inptr[i] = p
                st.mem[KPtr(p.obj, p.off + 8 * lane)] = v
            if extra_ptrs:
                ptrs = ptrs + list(extra_ptrs)
            if extra_mem:
                extra_mem(K, c, st, ptrs, lane, A)
            try:
                outsts = K.run_fn(st, name, ptrs)
            except (Undecided, IRError, KeyError, AssertionError) as e:
                res.undecided.append('lane %d box %s: %s: %s' % (lane, boxes, type(e).__name__, str(e)[:200]))
                continue
            res.asm += K.asm_info
            res.callsites += len(K.callsites)
            # the shifted flag is bookkeeping (pattern = value + 2^63 mod 2^64): an output carried with the other flag than the
            # contract names is re-expressed, not reported - two cells, on either side of 2^63
            expanded = []
            for st2, ret in outsts:
                if not st2.case.feasible():
                    continue
                alts = [(st2, st2.case, {})]
                try:
                    for k in range(nout if not ret_out else 0):
                        o = st2.mem.get(KPtr('out%d' % k, 8 * lane))
                        if o is None:
                            continue
                        nxt = []
                        for st_, c_, ov in alts:
                            o2 = K.tokv(c_, K.resolve(c_, o))
                            if bool(o2.sh) == bool(outs[k][1]):
                                nxt.append((st_, c_, ov))
                                continue
                            for c3, big in decide_gt(c_, KV(o2.p, o2.lo, o2.hi), const(MSB - 1)):
                                if big:
                                    v2 = KV(o2.p - MSB, max(0, o2.lo - MSB), o2.hi - MSB, 1 - o2.sh)
                                else:
                                    v2 = KV(o2.p + MSB, o2.lo + MSB, min(o2.hi, MSB - 1) + MSB, 1 - o2.sh)
                                ov2 = dict(ov)
                                ov2[k] = v2
                                nxt.append((st_, c3, ov2))
                        alts = nxt
                except Undecided:
                    alts = [(st2, st2.case, {})]
                for st_, c_, ov in alts:
                    expanded.append((st_, ret, c_, ov))
            for st2, ret, cs, override in expanded:
                if not cs.feasible():
                    continue
                res.cells += 1
                try:
                    vals = []
                    if ret_out:
                        vals.append(K.tokv(cs, ret))
                    for k in range(nout if not ret_out else 0):
                        if k in override:
                            vals.append(override[k])
                            continue
                        o = st2.mem.get(KPtr('out%d' % k, 8 * lane))
                        if o is None:
                            raise Undecided('output %d lane %d is never written' % (k, lane))
                        cc = cs
                        o = K.resolve(cc, o)
                        vals.append(K.tokv(cc, o))
                    tot = Poly()
                    for k, o in enumerate(vals):
                        tot = tot + o.p * (1 << (64 * (len(vals) - 1 - k)))
                    sp = spec(A)
                    z = final_poly(cs, tot - sp, exact)
                    problems = []
                    if z.d:
                        problems.append('value differs from the specification by %s' % str(z)[:160])
                    for o, (pts, psh) in zip(vals, outs):
                        lo, hi = cs.bound(o.p, o.lo, o.hi)
                        res.max_out = max(res.max_out, hi)
                        if lo < 0 or hi > M64 - 1:
                            problems.append('output interval [%d,%d] leaves 64 bits' % (lo, hi))
                        if bool(o.sh) != bool(psh):
                            problems.append('output shifted flag %d, contract %d' % (o.sh, psh))
                        if pts is not None and hi > TS_HI[pts]:
                            problems.append('output may reach %d, contract promises %s' % (hi, pts))
                    for sg, d in viol:
                        problems.append('internal call of %s: %s' % (sg.split('(')[0], d))
                    if problems:
                        wit = None
                        if z.d:
                            wit = witness_search(cs, (tot - sp) if not cs.subst else final_poly(cs, tot - sp, True), seed, exact=exact)
                        res.failures.append(dict(lane=lane, box={k: v for k, v in cs.box.items() if k[:-1] in [i[0] for i in ins]},
                                                 detail='; '.join(problems), witness=wit,
                                                 constraints=[('%s %s' % (str(p_)[:80], op)) for p_, op in cs.cons[:8]]))
                except (Undecided, KeyError) as e:
                    res.undecided.append('lane %d: %s' % (lane, str(e)[:200]))
    return res


def range_refine(cs, o, top, seed):
    """is `o > top` possible in the cell?  -> (top if shown impossible else None, witness or None)"""
    small = sorted(v for v, (l_, h_) in cs.box.items() if 0 < h_ - l_ <= 2)
    if len(small) > 14:
        small = []
    possible = False
    for combo in itertools.product(*[range(cs.box[v][0], cs.box[v][1] + 1) for v in small]):
        cc2 = cs.copy()
        for v, x in zip(small, combo):
            cc2.box[v] = (x, x)
        cc2.cons.append((o.p - (top + 1), '>=0'))
        if not cc2.feasible() or cc2.fm_infeasible():
            continue
        possible = True
        break
    if not possible:
        return top, None
    wit = witness_search(cs, Poly(), seed, pred=lambda a: o.p.ev(a) > top)
    return None, wit


def prove_cells(mod, name, nargs, in_cells, out_cells, specs, alias=None, seed=0, budget=6000, exact=False, dialect='x86', value_args=None, post=None, use_int_summaries=True, extra_summaries=None):
    """kernel-mode proof for routines whose operands are small arrays of Elements.
    nargs: number of pointer arguments; in_cells: [(arg index, byte offset, symbol, typestate)];
    out_cells: [(arg index, byte offset)]; specs: [function(symbol polys dict) -> Poly] per output cell;
    alias: {arg index: arg index} arguments that are the same object"""
    gc = kernel_globals(mod)
    res = Outcome()
    pres = [BOXES[ts] if ts != 'u32' else [None] for (_, _, _, ts) in in_cells]
    for boxes in itertools.product(*pres):
        viol = []
        S = int_summaries(mod, viol) if use_int_summaries else {}
        S.update(extra_summaries or {})
        K = KInterp(mod, lane=0, summaries=S, globals_=gc, budget=budget)
        K.asm_dialect = dialect
        c = Case()
        st = St(c, {}, {})
        ptrs = []
        for i in range(nargs):
            j = alias.get(i, i) if alias else i
            ptrs.append(KPtr('arg%d' % j, 0))
        for i, v in (value_args or {}).items():
            ptrs[i] = v(c) if callable(v) else v
        A = {}
        for (ai, off, nm, ts), bx in zip(in_cells, boxes):
            if ts == 'u32':
                c.box[nm] = (0, M32 - 1)
                A[nm] = Poly.var(nm)
                st.mem[KPtr(ptrs[ai].obj, off)] = KV(Poly.var(nm), 0, M32 - 1, w=32)
                continue
            v = sym64(c, nm, bx, 0)
            A[nm] = Poly.var(nm + 'h') * M32 + Poly.var(nm + 'l')
            if off is None:
                ptrs[ai] = v            # the operand is passed by value (an Element in a register)
            else:
                st.mem[KPtr(ptrs[ai].obj, off)] = v
        try:
            outs = K.run_fn(st, name, ptrs)
        except (Undecided, IRError, KeyError, AssertionError) as e:
            res.undecided.append('%s: %s' % (type(e).__name__, str(e)[:200]))
            continue
        res.asm += K.asm_info
        for st2, ret in outs:
            cs = st2.case
            if not cs.feasible():
                continue
            res.cells += 1
            try:
                for (ai, off), sp in zip(out_cells, specs):
                    if ai == 'ret':
                        o = ret
                        ai = -1
                        if o is None:
                            raise Undecided('the routine returns no value')
                    else:
                        o = st2.mem.get(KPtr(ptrs[ai].obj, off))
                    if o is None:
                        raise Undecided('output cell arg%d+%d is never written' % (ai, off))
                    o = K.tokv(cs, K.resolve(cs, o))
                    diff = o.p - sp(A)
                    z = final_poly(cs, diff, exact)
                    lo, hi = cs.bound(o.p, o.lo, o.hi)
                    res.max_out = max(res.max_out, hi)
                    problems = []
                    if z.d and all((cs.box[v][1] - cs.box[v][0]) <= 2 for v in z.vars()) and len(z.vars()) <= 12:
                        # the residual only involves carry / borrow bits that the code drops or folds: enumerate their values and
                        # keep the combinations the cell's constraints allow
                        bad_combo = None
                        small = sorted(v for v, (l_, h_) in cs.box.items() if 0 < h_ - l_ <= 2)
                        vs = sorted(z.vars()) + ([v for v in small if v not in z.vars()] if len(small) <= 14 else [])
                        for combo in itertools.product(*[range(cs.box[v][0], cs.box[v][1] + 1) for v in vs]):
                            val = z.subst({v: Poly.const(x) for v, x in zip(vs, combo) if v in z.vars()})
                            val = val if exact else val.modp()
                            if not val.d:
                                continue
                            cc2 = cs.copy()
                            for v, x in zip(vs, combo):
                                cc2.box[v] = (x, x)
                            if cc2.feasible() and not cc2.fm_infeasible():
                                bad_combo = (dict(zip(vs, combo)), cc2)
                                break
                            res.cells += 1
                        if bad_combo is None:
                            z = Poly()
                        else:
                            cs = bad_combo[1]
                            z = final_poly(cs, diff, exact)
                    if z.d:
                        problems.append('cell arg%d+%d differs from the specification by %s' % (ai, off, str(z)[:120]))
                    if o.sh:
                        problems.append('cell arg%d+%d holds a shifted value' % (ai, off))
                    kind = 'value' if problems else None
                    rwit = None
                    if post is not None and hi > TS_HI[post] and not z.d:
                        # the interval of the whole cell is too coarse when carry bits are still open: decide the claim
                        # `output > bound` per carry combination by polyhedral emptiness
                        hi2, rwit = range_refine(cs, o, TS_HI[post], seed)
                        res.cells += 1
                        if hi2 is not None:
                            hi = hi2
                    if post is not None and hi > TS_HI[post]:
                        problems.append('cell arg%d+%d may reach %d, expected %s' % (ai, off, hi, post))
                        kind = kind or 'range'
                    if problems:
                        wit = witness_search(cs, final_poly(cs, diff, True) if cs.subst else diff, seed, exact=exact) if z.d else rwit
                        # values returned by summarised callees are known only up to their residue: a witness is kept only when the
                        # cell's constraints do not mention them (otherwise the concrete inputs need not reach this cell)
                        summ_syms = set()
                        for sb in cs.subst:
                            if len(sb) > 2 and not sb[2]:
                                summ_syms |= {sb[0], sb[0][:-1] + 'h', sb[0][:-1] + 'l'}
                        if wit is not None and summ_syms and any(p_.vars() & summ_syms for p_, op_ in cs.cons):
                            wit = None
                        res.failures.append(dict(lane=0, box={}, detail='; '.join(problems), witness=wit, constraints=[], kind=kind))
                        break
            except (Undecided, KeyError) as e:
                res.undecided.append(str(e)[:200])
    return res


def prove_predicate(mod, name, nargs, in_cells, expr, seed=0, budget=6000):
    """kernel-mode decision of a boolean routine against `expr(A) = 0 (mod p)` for all 64-bit representations:
    in every abstract cell the routine returns a constant; a cell returning true must have expr in {k*p} at every
    point (its interval is a single multiple of p), a cell returning false must exclude every multiple of p in reach
    (emptiness by interval propagation, then Fourier-Motzkin).  Refutation only with a concrete witness."""
    gc = kernel_globals(mod)
    res = Outcome()
    pres = [BOXES[ts] for (_, _, _, ts) in in_cells]
    for boxes in itertools.product(*pres):
        K = KInterp(mod, lane=0, summaries={}, globals_=gc, budget=budget)
        c = Case()
        st = St(c, {}, {})
        ptrs = [KPtr('arg%d' % i, 0) for i in range(nargs)]
        A = {}
        for (ai, off, nm, ts), bx in zip(in_cells, boxes):
            v = sym64(c, nm, bx, 0)
            A[nm] = Poly.var(nm + 'h') * M32 + Poly.var(nm + 'l')
            st.mem[KPtr(ptrs[ai].obj, off)] = v
        E = expr(A)
        try:
            outs = K.run_fn(st, name, ptrs)
        except (Undecided, IRError, KeyError, AssertionError) as e:
            res.undecided.append('%s: %s' % (type(e).__name__, str(e)[:200]))
            continue
        for st2, ret in outs:
            cs = st2.case
            if not cs.feasible():
                continue
            res.cells += 1
            if isinstance(ret, KV) and ret.isconst():
                ret = bool(ret.cval() & 1)
            if not isinstance(ret, bool):
                res.undecided.append('the routine returns %r, not a decided boolean' % (ret,))
                continue
            lo, hi = cs.bound(E)
            ks = [k for k in range(-(-lo // P), hi // P + 1)]
            if ret:
                if lo == hi and lo % P == 0:
                    continue
                # true is right only if every point of the cell has expr = k*p: look for a point where it is not
                wit = witness_search(cs, E, seed)
                res.failures.append(dict(lane=0, box={}, witness=wit, constraints=[], kind='value',
                                         detail='returns true on a cell where the operands differ (expr in [%d, %d]) differs' % (lo, hi)))
                continue
            for k in ks:
                cc2 = cs.copy()
                cc2.cons.append((E - k * P, '>=0'))
                cc2.cons.append((E - k * P - 1, '<0'))
                if not cc2.feasible() or cc2.fm_infeasible():
                    continue
                wit = witness_search(cs, Poly(), seed, pred=lambda a, k=k: E.ev(a) == k * P)
                if wit is None:
                    # try the direct construction: a point of the sub-cell
                    wit = witness_search(cc2, Poly(), seed, pred=lambda a: True)
                res.failures.append(dict(lane=0, box={}, witness=wit, constraints=[], kind='value',
                                         detail='returns false although the operands can be congruent (expr = %d*p is possible in the cell) differs' % k))
                break
    return res


def scalar_summaries(mod):
    """kernel-mode summaries of the scalar primitives add / sub / mul(result, in1, in2) (proved for all 64-bit operands by
    C01): the result is a fresh 64-bit value congruent to the ring operation on the operand cells"""
    S = {}
    for c in contracts.SCALAR:
        try:
            n = mod.find(c['sig'])
        except KeyError:
            continue

        def h(K, st, args, op=c['op']):
            cc = st.case.copy()
            st2 = st.fork(cc)
            r, a, b = args
            A = K.tokv(cc, K.resolve(cc, K.load_cell(st2, KPtr(a.obj, a.off))))
            B = K.tokv(cc, K.resolve(cc, K.load_cell(st2, KPtr(b.obj, b.off))))
            if A.sh or B.sh:
                raise Undecided('shifted value passed to a scalar primitive')
            cc.n += 1
            nm = 'f%d' % cc.n
            v = sym64(cc, nm, BOXES['u64'][0], 0)
            spec = A.p + B.p if op == 'add' else (A.p - B.p if op == 'sub' else A.p * B.p)
            cc.subst.append((nm + 'l', spec - M32 * Poly.var(nm + 'h'), False))
            st2.mem[KPtr(r.obj, r.off)] = v
            return [(st2, None)]
        S[n] = h
    return S


def field_summaries(mod, viol, W_only=None):
    """kernel-mode summaries of the contracted lane kernels (proved for every lane by C02 / C11), for routines that are
    analysed with all lanes tracked: each result lane is a fresh 64-bit value congruent to the field operation on the operand
    lanes, inside the post-typestate of the contract; operand typestates are checked against the contract"""
    S = {}
    for c in contracts.FIELD:
        if W_only and c['W'] != W_only:
            continue
        try:
            n = mod.find(c['sig'])
        except KeyError:
            continue

        def h(K, st, args, c=c):
            cc = st.case.copy()
            st2 = st.fork(cc)
            out = args[0]
            ins = args[1:1 + len(c['ins'])]
            for l in range(c['W']):
                A = []
                for (nm, ts, sh), a in zip(c['ins'], ins):
                    if not isinstance(a, KPtr):
                        raise Undecided('contracted kernel called with a non-pointer operand')
                    v = K.tokv(cc, K.resolve(cc, K.load_cell(st2, KPtr(a.obj, a.off + 8 * l))))
                    if bool(v.sh) != bool(sh):
                        raise Undecided('operand %s of %s carried with the other shifted flag' % (nm, c['sig'].split('(')[0]))
                    lo, hi = cc.bound(v.p, v.lo, v.hi)
                    if hi > TS_HI[ts]:
                        viol.append((c['sig'], 'operand %s lane %d may reach %d, contract wants %s' % (nm, l, hi, ts)))
                    A.append(v.p)
                cc.n += 1
                nm_ = 'k%d' % cc.n
                ots = c['out'][1]
                v = sym64(cc, nm_, BOXES['u64'][0], c['out'][2])
                if TS_HI[ots] < M64 - 1:
                    cc.cons.append((v.p - TS_HI[ots] - 1, '<0'))
                cc.subst.append((nm_ + 'l', spec_poly(c['op'], A) - M32 * Poly.var(nm_ + 'h'), False))
                st2.mem[KPtr(out.obj, out.off + 8 * l)] = v
            return [(st2, None)]
        S[n] = h
    return S


def prove_routine_all_lanes(mod, name, arg_cells, out_cells, ret_spec, subst_atoms, seed=0, budget=20000, W=None, extra_summaries=None, focus=None):
    """kernel-mode analysis of a routine that combines lanes (dot products, horizontal sums) with the lane kernels and the
    scalar primitives replaced by their contracts.  arg_cells: per pointer argument a list of (byte offset, symbol, typestate);
    out_cells: [(arg index, byte offset, spec Poly over symbol polys)], ret_spec: Poly or None.  Returns an Outcome."""
    gc = kernel_globals(mod)
    res = Outcome()
    viol = []
    S = {}
    S.update(field_summaries(mod, viol, W))
    S.update(scalar_summaries(mod))
    if extra_summaries:
        S.update(extra_summaries(viol) if callable(extra_summaries) else extra_summaries)
    S.pop(name, None)       # the routine under analysis is interpreted
    K = KInterp(mod, lane=0, summaries=S, globals_=gc, budget=budget, all_lanes=True)
    K.focus = focus
    c = Case()
    st = St(c, {}, {})
    ptrs = [KPtr('arg%d' % i, 0) for i in range(len(arg_cells))]
    for i, cells in enumerate(arg_cells):
        for off, nm, ts in cells:
            st.mem[KPtr('arg%d' % i, off)] = sym64(c, nm, BOXES[ts][0], 0)
    try:
        outs = K.run_fn(st, name, ptrs)
    except (Undecided, IRError, KeyError, AssertionError) as e:
        res.undecided.append('%s: %s' % (type(e).__name__, str(e)[:200]))
        return res
    for st2, ret in outs:
        cs = st2.case
        if not cs.feasible():
            continue
        res.cells += 1
        try:
            checks = []
            for ai, off, sp in out_cells:
                o = st2.mem.get(KPtr('arg%d' % ai, off))
                if o is None:
                    raise Undecided('output cell arg%d+%d is never written' % (ai, off))
                checks.append((K.tokv(cs, K.resolve(cs, o)), sp, 'cell arg%d+%d' % (ai, off)))
            if ret_spec is not None:
                if ret is None:
                    raise Undecided('the routine returns no value')
                checks.append((K.tokv(cs, K.resolve(cs, ret)), ret_spec, 'returned value'))
            for o, sp, what in checks:
                diff = o.p - sp
                z = final_poly(cs, diff, False)
                if z.d and all((cs.box[v][1] - cs.box[v][0]) <= 2 for v in z.vars()) and len(z.vars()) <= 12:
                    bad = False
                    vs = sorted(z.vars())
                    for combo in itertools.product(*[range(cs.box[v][0], cs.box[v][1] + 1) for v in vs]):
                        val = z.subst({v: Poly.const(x) for v, x in zip(vs, combo)}).modp()
                        if not val.d:
                            continue
                        cc2 = cs.copy()
                        for v, x in zip(vs, combo):
                            cc2.box[v] = (x, x)
                        if cc2.feasible() and not cc2.fm_infeasible():
                            bad = True
                            cs = cc2
                            break
                    if not bad:
                        z = Poly()
                    else:
                        z = final_poly(cs, diff, False)
                if z.d:
                    # contract-level witness: operand values plus callee results chosen inside the callee contracts
                    wit = witness_search(cs, final_poly(cs, diff, True) if cs.subst else diff, seed, exact=False)
                    res.failures.append(dict(lane=0, box={}, detail='%s differs from the specification by %s' % (what, str(z)[:120]),
                                             witness=wit, constraints=[], kind='value', contract_level=True))
                    break
            for sg, d in viol:
                # the bound that could not be shown is not tied to this cell (a data-dependent guard may have refined the operand on the
                # path that reaches the call): without a witness this is not a verdict
                res.failures.append(dict(lane=0, box={}, detail='internal call of %s: %s' % (sg.split('(')[0], d), witness=None, constraints=[], kind='range'))
                break
        except (Undecided, KeyError) as e:
            res.undecided.append(str(e)[:200])
    return res
