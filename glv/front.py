"""Front end: rebuilds the resolved program (LLVM IR, AST dumps) from /repo's working tree on every run.

Artifacts are cached under /verif/.work/ir/<key>/ where key hashes every file under /repo/src plus the
flags, so an edit to the repository always yields a fresh build and an unchanged tree is not rebuilt
by each of the 20 checks.
"""
import hashlib, os, re, subprocess, sys, glob, fcntl, shutil, json

REPO = os.environ.get('GLV_REPO', '/repo')
SRC = os.path.join(REPO, 'src')
WORK = os.environ.get('GLV_WORK', '/verif/.work')
HERE = os.path.dirname(os.path.abspath(__file__))

UMBRELLA = '''#include "goldilocks_base_field.hpp"
#include "goldilocks_cubic_extension.hpp"
#include "ntt_goldilocks.hpp"
#include "poseidon_goldilocks.hpp"
#include "merklehash_goldilocks.hpp"
#include "goldilocks_base_field.cpp"
#include "goldilocks_cubic_extension.cpp"
#include "ntt_goldilocks.cpp"
#include "poseidon_goldilocks.cpp"
'''
def umbrella():
    """the unity translation unit: the public headers, then every src/*.cpp the shipped build compiles (`g++ tests/tests.cpp
    src/*.cpp`): the four units of the pinned tree in their usual order, then any unit added since (sorted), so that code moved
    into a new source file is still analysed"""
    hs = [h for h in HEADERS if os.path.exists(os.path.join(SRC, h))]
    cpps = sorted(os.path.basename(f) for f in glob.glob(os.path.join(SRC, '*.cpp')))
    units = [u for u in CPP_UNITS if u in cpps] + [u for u in cpps if u not in CPP_UNITS]
    return ''.join('#include "%s"\n' % x for x in hs + units)


CPP_UNITS = ['goldilocks_base_field.cpp', 'goldilocks_cubic_extension.cpp', 'ntt_goldilocks.cpp', 'poseidon_goldilocks.cpp']
HEADERS = ['goldilocks_base_field.hpp', 'goldilocks_cubic_extension.hpp', 'ntt_goldilocks.hpp', 'poseidon_goldilocks.hpp',
           'merklehash_goldilocks.hpp']
GUARD = 'GOLDILOCKS_VERIF'


class FrontError(Exception):
    pass


def src_files():
    fs = sorted(glob.glob(os.path.join(SRC, '*')))
    return [f for f in fs if os.path.isfile(f)]


_tree_key = None


def tree_key():
    global _tree_key
    if _tree_key is None:
        h = hashlib.sha256()
        for f in src_files():
            h.update(os.path.basename(f).encode())
            h.update(b'\0')
            with open(f, 'rb') as fh:
                h.update(fh.read())
            h.update(b'\0')
        _tree_key = h.hexdigest()[:20]
    return _tree_key


def base_flags(config):
    fl = ['-std=gnu++17', '-march=sapphirerapids', '-I' + SRC, '-D' + GUARD]
    if config == 'avx512':
        fl.append('-D__AVX512__')
    elif config != 'avx2':
        raise FrontError('config ' + config)
    return fl


def cache_dir():
    d = os.path.join(WORK, 'ir', tree_key())
    os.makedirs(d, exist_ok=True)
    # prune old caches (keep 3 most recent)
    root = os.path.join(WORK, 'ir')
    try:
        ds = sorted((os.path.join(root, x) for x in os.listdir(root)), key=os.path.getmtime)
        for old in ds[:-3]:
            if os.path.basename(old) != tree_key():
                shutil.rmtree(old, ignore_errors=True)
    except OSError:
        pass
    return d


def _run(cmd, what):
    r = subprocess.run(cmd, capture_output=True, text=True)
    if r.returncode != 0:
        raise FrontError('%s failed: %s\n%s' % (what, ' '.join(cmd), r.stderr[-3000:]))
    return r


def _locked(path):
    lk = open(path + '.lock', 'w')
    fcntl.flock(lk, fcntl.LOCK_EX)
    return lk


def ir_path(config, omp=False, sroa=False):
    """path to the unity-module IR for a build configuration; built on demand"""
    d = cache_dir()
    base = 'unity_%s%s' % (config, '_omp' if omp else '')
    raw = os.path.join(d, base + '.ll')
    out = os.path.join(d, base + ('.sroa.ll' if sroa else '.ll'))
    if os.path.exists(out) and os.path.getsize(out) > 0:
        return out
    lk = _locked(os.path.join(d, base))
    try:
        if not (os.path.exists(raw) and os.path.getsize(raw) > 0):
            # one umbrella file per configuration: a shared file would be truncated by one builder while another
            # configuration's compiler is reading it (checks run in parallel)
            um = os.path.join(d, base + '_umbrella.cpp')
            with open(um, 'w') as f:
                f.write(umbrella())
            cmd = ['clang++'] + base_flags(config) + ['-O0', '-Xclang', '-disable-O0-optnone', '-g', '-fno-discard-value-names',
                                                     '-femit-all-decls', '-S', '-emit-llvm', um, '-o', raw + '.tmp']
            if omp:
                cmd.insert(1, '-fopenmp')
            _run(cmd, 'clang (IR %s)' % base)
            os.replace(raw + '.tmp', raw)
        if sroa and not (os.path.exists(out) and os.path.getsize(out) > 0):
            _run(['opt-14', '-S', '-passes=function(sroa,early-cse)', raw, '-o', out + '.tmp'], 'opt (sroa)')
            os.replace(out + '.tmp', out)
    finally:
        lk.close()
    return out


def ast_json(config, filt, omp=True):
    """concatenated JSON objects of -ast-dump-filter=<filt> on the unity TU"""
    d = cache_dir()
    out = os.path.join(d, 'ast_%s_%s%s.json' % (config, filt.replace(':', '_'), '_omp' if omp else ''))
    if os.path.exists(out) and os.path.getsize(out) > 0:
        return out
    lk = _locked(out)
    try:
        if not (os.path.exists(out) and os.path.getsize(out) > 0):
            # one umbrella file per configuration: a shared file would be truncated by one builder while another
            # configuration's compiler is reading it (checks run in parallel)
            um = out + '_umbrella.cpp'
            with open(um, 'w') as f:
                f.write(umbrella())
            cmd = ['clang++'] + base_flags(config) + (['-fopenmp'] if omp else []) + ['-fsyntax-only', '-Xclang', '-ast-dump=json',
                                                                                      '-Xclang', '-ast-dump-filter=' + filt, um]
            with open(out + '.tmp', 'w') as fo:
                r = subprocess.run(cmd, stdout=fo, stderr=subprocess.PIPE, text=True)
            if r.returncode != 0:
                raise FrontError('clang ast-dump failed: ' + r.stderr[-2000:])
            os.replace(out + '.tmp', out)
    finally:
        lk.close()
    return out


def load_ast(config, filt, omp=True):
    p = ast_json(config, filt, omp)
    txt = open(p).read()
    dec = json.JSONDecoder()
    i = 0
    out = []
    n = len(txt)
    while i < n:
        while i < n and txt[i] in ' \r\n\t':
            i += 1
        if i >= n:
            break
        if txt[i] != '{':
            # "Dumping xyz:" header lines
            j = txt.find('\n', i)
            i = n if j < 0 else j + 1
            continue
        obj, j = dec.raw_decode(txt, i)
        out.append(obj)
        i = j
    return out


CUDA_DRIVER = '''#include <cstdint>
#include <cstddef>
#define __USE_CUDA__ 1
#define __device__
#define __constant__
#define __noinline__ __attribute__((noinline))
#define __host__
#define __forceinline__ __inline__
struct __dim3_stub { unsigned x, y, z; };
static __dim3_stub threadIdx, blockIdx, blockDim, gridDim;
#include "gl64_t_norm.cuh"
#undef inline
#undef asm
'''


def normalise_cuda_header(text):
    """make the host C++ front end accept what nvcc accepts in gl64_t.cuh, without touching any instruction:
    (1) `%name` (a PTX register / predicate name) inside a string literal becomes `%%name`, the GNU-asm spelling of a
        literal percent sign; operand references %0..%9 stay; (2) a missing comma between two asm operands is inserted."""
    def lit(m):
        return re.sub(r'%(?=[A-Za-z_])', '%%', m.group(0))
    out = []
    for line in text.split('\n'):
        code = line.split('//')[0] if 'asm' in line or line.lstrip().startswith(':') or line.lstrip().startswith('"') else None
        if code is not None and re.search(r'asm\s*\(\s*"[^"]*"\s*\)\s*;', code):
            code = None                      # basic asm (no operands): '%' is not an escape there
        if code is not None:
            rest = line[len(code):]
            code = re.sub(r'"(?:[^"\\]|\\.)*"', lit, code)
            code = re.sub(r'(\))(\s+)("[=+][a-z]+"\s*\()', r'\1,\2\3', code)
            line = code + rest
        out.append(line)
    return '\n'.join(out)


def cuda_ir_path(arch, sroa=True):
    """IR of the device field type (src/gl64_t.cuh) for one __CUDA_ARCH__ value, through the host C++ front end:
    CUDA qualifiers are defined away, inline PTX strings are kept verbatim as inline-asm calls for glv/ptx.py"""
    d = os.path.join(cache_dir(), 'cuda')
    os.makedirs(d, exist_ok=True)
    base = os.path.join(d, 'gl64_%d' % arch)
    raw = base + '.ll'
    out = base + ('.sroa.ll' if sroa else '.ll')
    if os.path.exists(out) and os.path.getsize(out) > 0:
        return out
    lk = _locked(base)
    try:
        if not (os.path.exists(raw) and os.path.getsize(raw) > 0):
            with open(os.path.join(SRC, 'gl64_t.cuh')) as f:
                text = f.read()
            with open(os.path.join(d, 'gl64_t_norm.cuh'), 'w') as f:
                f.write(normalise_cuda_header(text))
            drv = os.path.join(d, 'drv.cpp')
            with open(drv, 'w') as f:
                f.write(CUDA_DRIVER)
            _run(['clang++', '-std=gnu++17', '-D__CUDA_ARCH__=%d' % arch, '-I' + d, '-O0', '-Xclang', '-disable-O0-optnone', '-g',
                  '-fno-discard-value-names', '-femit-all-decls', '-S', '-emit-llvm', drv, '-o', raw + '.tmp'], 'clang (device field type, arch %d)' % arch)
            os.replace(raw + '.tmp', raw)
        if sroa and not (os.path.exists(out) and os.path.getsize(out) > 0):
            _run(['opt-14', '-S', '-passes=function(sroa,early-cse)', raw, '-o', out + '.tmp'], 'opt (sroa)')
            os.replace(out + '.tmp', out)
    finally:
        lk.close()
    return out


def cuda_module(arch, sroa=True):
    from . import ir
    k = ('cuda', arch, sroa)
    if k not in _mods:
        _mods[k] = ir.Module(cuda_ir_path(arch, sroa))
    return _mods[k]


_mods = {}


def module(config, omp=False, sroa=False):
    from . import ir
    k = (config, omp, sroa)
    if k not in _mods:
        _mods[k] = ir.Module(ir_path(config, omp, sroa))
    return _mods[k]


def rel(path):
    """repository-relative path for reports"""
    if path and path.startswith(REPO + '/'):
        return path[len(REPO) + 1:]
    return path


if __name__ == '__main__':
    for cfg in ('avx2', 'avx512'):
        for omp in (False, True):
            print(ir_path(cfg, omp, True))
