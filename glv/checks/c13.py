"""C13: AVX2 dot / sparse / dense 12-wide matrix kernels equal the product mod p."""
from .. import matcheck, kcheck

LEVEL = 'proof'
PAT = r'^Goldilocks::(spmv_avx_4x12|mmult_avx|dot_avx)(_4x12)?(_a|_8)?\('


def run(rep, tier, seed):
    rep.rule_text = ('each AVX2 dot/spmv/mmult kernel is interpreted abstractly (products and sums through contracted lane kernels, the 4x4 '
                     'transpose through interpreted shuffles on symbolic lanes); every result lane must have the normal form of the documented '
                     'matrix product mod p for arbitrary representations; coefficient reads stay inside the declared array; every lane-kernel '
                     'precondition (typestate) holds at its call site; 8-bit variants under the documented coefficient < 2^8 precondition')
    for cfg in ('avx2', 'avx512'):
        matcheck.run_family(rep, cfg, PAT, 11, 'C13')
    # spmv_avx_4x12_8 does raw adds on the high parts of its 72-bit products: decided on exact integers, every lane
    n = kcheck.prove_field_contracts(rep, 'avx2', 4, seed=seed)     # the lane kernels the matrix kernels are built from, incl. the 8-bit sparse kernel
    rep.floor('lane kernels proved (kernel mode)', n, 18)
    rep.trusted = ['clang 14 lowering', 'glv abstract interpreter', 'lane-kernel contracts (proved by C02 kernel mode)']
