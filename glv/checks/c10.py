"""C10: base-field inverse, division and power (refusal, algebraic loop invariant of inv, div = a*inv(b), exp on a bounded exponent set)."""
import re
from .. import front, contracts, harness
from ..interp import Incomplete, Sink, Interp, Region, Ptr
from ..ir import IRError
from ..poly import Poly, FV, C, P, PPTable, as_poly
from ..cfg import FnInfo, callee_name, regs_of
from ..wrapcheck import site_of, sink_site
from .c09 import explore_predicate

LEVEL = 'proof'
E = 'Goldilocks::Element'
SIG_INV = 'Goldilocks::inv(%s&, %s const&)' % (E, E)


def res(ctx, v):
    """residue normal form of an integer / field value"""
    return contracts.to_fv(v).nf


def loop_header(fi):
    """the unique natural-loop header (target of a back edge), or None"""
    dom = fi.dominators()
    heads = set()
    for b, ss in fi.succ.items():
        for x in ss:
            if x in dom[b]:
                heads.add(x)
    return list(heads)[0] if len(heads) == 1 else None


def check_refusal(rep, mod):
    """R-MUSTEXIT: every path on which isZero(in1) holds reaches a noreturn call before any return or store to result"""
    name = mod.find(SIG_INV)
    fi = FnInfo(mod.fn(name))
    site = site_of(mod, name)
    P_RESULT = fi.fn.params[0][1]      # positional: inv(Element &result, const Element &in1)
    P_IN = fi.fn.params[1][1]

    def must_exit(start):
        """(all paths from `start` reach a process-ending call before a return, problems found on the way)"""
        bad_ = []
        seen_ = set()
        todo_ = [start]
        exits_ = 0
        while todo_:
            x = todo_.pop()
            if x in seen_:
                continue
            seen_.add(x)
            stop = False
            for ins in fi.fn.blocks[x]:
                c = callee_name(ins)
                if c in ('exit', 'abort', '_exit', 'quick_exit', '__assert_fail', '_ZSt9terminatev'):
                    exits_ += 1
                    stop = True
                    break
                if ins.op == 'store' and P_RESULT in fi.backward_slice(regs_of(ins.a[1])):
                    bad_.append('a value is stored to result before the process is ended')
                if ins.op == 'ret':
                    bad_.append('the refusing branch can return to the caller')
            if not stop:
                todo_ += fi.succ.get(x, [])
        return exits_, bad_
    guard = None
    for b in fi.fn.order:
        t = fi.term[b]
        if t is not None and t.op == 'br' and t.a and len(t.x) == 2:
            for side in (0, 1):
                ex, bd = must_exit(t.x[side])
                if ex and not any('return' in m for m in bd):
                    guard = (b, t, side, ex, bd)
                    break
        if guard:
            break
    if guard is None:
        rep.refute('refusal:must-exit', 'R-MUSTEXIT', site, 'Goldilocks::inv has no branch whose one side always ends the process before returning')
    else:
        b, t, side, exits, bad = guard
        f, l = mod.loc(t.dbg)
        if bad:
            rep.refute('refusal:must-exit', 'R-MUSTEXIT', '%s:%s' % (front.rel(f), l), '; '.join(bad))
        else:
            rep.ok('refusal:must-exit', 'R-MUSTEXIT', '%s:%s' % (front.rel(f), l),
                   'one side of the guard ends the process on every path (%d exit sites) before any return or store to result' % exits)
        d = fi.defs.get(t.a[0][1]) if t.a[0][0] == 'r' else None
        is_iz = bool(d and callee_name(d[1]) and re.match(r'^Goldilocks::isZero\(', mod.dem.get(callee_name(d[1]), '')) and d[1].a[1] == ('r', P_IN) and side == 0)
        if is_iz:
            rep.ok('refusal:guard-is-isZero', 'R-MUSTEXIT', '%s:%s' % (front.rel(f), l), 'the refusing side is taken exactly when isZero(in1) holds')
        else:
            rep.note('the refusal guard of Goldilocks::inv is not a call of isZero(in1); its representation independence is decided by the two singleton runs below')
    # the guard is representation independent: isZero is true exactly when the residue is 0
    iz = mod.find('Goldilocks::isZero(%s const&)' % E)

    def factory(ctx):
        s_, _ = contracts.wrapper_summaries(mod, ctx)
        s_.pop(iz, None)          # isZero itself is under analysis here
        return s_

    def setup(summ, opts):
        return harness.run_routine(mod, iz, summ, opts=opts).ret
    try:
        leaves = explore_predicate(mod, iz, factory, setup)
        key = Poly.var('in1[0]').key()
        neg = (-Poly.var('in1[0]')).modp().key()
        good = all(len(a) == 1 and list(a)[0] in (key, neg) and bool(r & 1) == list(a.values())[0] for a, r in leaves) and len(leaves) == 2
        (rep.ok if good else rep.refute)('refusal:guard-residue', 'R-MUSTEXIT', site_of(mod, iz),
                                         'isZero(x) is exactly "x = 0 (mod p)" (a function of the canonical value only): both representations 0 and p are refused'
                                         if good else 'isZero is not the residue test x = 0 (mod p): %r' % (leaves,))
    except (Incomplete, IRError) as e:
        if 'outside a contracted kernel' in str(e) or 'data-dependent comparison on field values' in str(e):
            # isZero compares the raw word: decided on exact integers for all 64-bit representations
            from .. import kprove, kcheck
            smod_ = front.module('avx2', sroa=True)
            r = kprove.prove_predicate(smod_, smod_.find('Goldilocks::isZero(%s const&)' % E), 1, [(0, 0, 'a', 'u64')], lambda A: A['a'])
            kcheck.record(rep, 'refusal:guard-residue', 'R-MUSTEXIT', site_of(mod, iz), r,
                          'isZero on raw representations is the residue test x = 0 (mod p): both 0 and p are refused')
        else:
            rep.incomplete('refusal:guard-residue', 'R-MUSTEXIT', site_of(mod, iz), str(e))
    # singleton abstract values 0 and p: constant propagation reaches exit() with result untouched
    for rep_val in (0, P):
        ctx = contracts.Ctx()
        summ, _ = contracts.wrapper_summaries(mod, ctx)
        summ.pop(mod.find(SIG_INV), None)
        I = Interp(mod, summ, {'summ_re': [(re.compile(r'^_ZStls|^_ZNSolsE|^_ZNSo'), lambda I_, a, i: a[0])]})
        rin = Region('in1', 'param', extent=8, elem='field')
        rout = Region('result', 'param', extent=8, elem='field')
        I.mem[(rin, 0)] = (rep_val, 8)
        tag = 'refusal:representation %s' % ('0' if rep_val == 0 else 'p')
        try:
            I.call(name, [Ptr(rout, 0), Ptr(rin, 0)])
            rep.refute(tag, 'R-MUSTEXIT', site, 'inv returned for an operand congruent to zero')
        except Sink as e:
            if e.kind == 'exit' and not I.writes:
                rep.ok(tag, 'R-MUSTEXIT', sink_site(e, site), 'process ended by exit() with result untouched')
            else:
                rep.refute(tag, 'R-MUSTEXIT', sink_site(e, site), 'unexpected end: %s (writes to result: %d)' % (e, len(I.writes)))
        except (Incomplete, IRError) as e:
            rep.incomplete(tag, 'R-MUSTEXIT', site, str(e))


def inv_by_power(rep, mod, name, site, why):
    """inv without the extended-Euclid loop shape: accepted if the routine, interpreted on a symbolic operand with the
    refusal guard decided 'non-zero', returns the power in1^(p-2) (AC-normalised power product): in1^(p-1) = 1 (Fermat)"""
    pp = PPTable()
    ctx = contracts.Ctx(pp=pp)
    summ, _ = contracts.wrapper_summaries(mod, ctx)
    summ.pop(name, None)

    def decide(pred, a, b):
        d = as_poly(a) - as_poly(b)
        if pred in ('eq', 'ne') and any(x.startswith('canon{') for x in d.vars()):
            return pred == 'ne'
        return None
    ctx.symbolic_canon = True
    try:
        eff = harness.run_routine(mod, name, summ, opts={'decide': decide, 'summ_re': [(re.compile(r'^_ZStls|^_ZNSolsE|^_ZNSo'), lambda I_, a, i: a[0])]})
        outp = [p_ for p_ in eff.params if p_.dty == 'E&']
        got = eff.writes.get((outp[0].region.name, 0)) if outp else eff.ret
        b = Poly.var('in1[0]')
        acc = None
        for bit in bin(P - 2)[2:]:
            if acc is not None:
                acc = ctx.mul(acc, acc)
            if bit == '1':
                acc = b if acc is None else ctx.mul(acc, b)
        if isinstance(got, FV) and got.nf == acc:
            rep.ok('inv:power', 'inv-fermat', site, 'the loop is not the extended-Euclid form (%s); the routine returns in1^(p-2), and in1^(p-1) = 1 for in1 != 0 (Fermat)' % why)
            return
        rep.incomplete('inv:loop', 'loop-invariant', site, '%s, and the result %s is not the power in1^(p-2) either' % (why, str(got)[:80]))
    except (Incomplete, IRError, Sink, KeyError) as e:
        rep.incomplete('inv:loop', 'loop-invariant', site, '%s; as a power: %s' % (why, e))


def check_inv_invariant(rep, mod):
    """inductive argument on the extended-Euclid loop: t*a = r and newt*a = newr (mod p) hold on entry and are preserved by
    the loop body executed from an arbitrary state; the returned value is t"""
    name = mod.find(SIG_INV)
    fi = FnInfo(mod.fn(name))
    site = site_of(mod, name)
    hdr = loop_header(fi)
    if hdr is None:
        inv_by_power(rep, front.module('avx2'), front.module('avx2').find(SIG_INV), site, 'Goldilocks::inv does not have exactly one loop')
        return
    phis = [i for i in fi.fn.blocks[hdr] if i.op == 'phi']
    if len(phis) != 4:
        inv_by_power(rep, front.module('avx2'), front.module('avx2').find(SIG_INV), site, 'loop header carries %d variables, the extended-Euclid form has 4' % len(phis))
        return
    ctx = contracts.Ctx()
    ctx.symbolic_canon = True
    summ, _ = contracts.wrapper_summaries(mod, ctx)
    summ.pop(name, None)
    forced = {}

    def decide(pred, a, b):
        d = as_poly(a) - as_poly(b)
        k = d.key()
        if k in forced:
            v = forced[k]
            return v if pred == 'eq' else (not v)
        nk = (-d).key()
        if nk in forced:
            v = forced[nk]
            return v if pred == 'eq' else (not v)
        # the refusal guard: operand not congruent to zero on this path
        if pred in ('eq', 'ne') and any(x.startswith('canon{') for x in d.vars()):
            return pred == 'ne'
        return None
    qn = [0]

    qops = []
    qcache = {}
    urems = set()

    def quotient(a, b):
        k = (as_poly(a).key(), as_poly(b).key())
        if k not in qcache:
            qn[0] += 1
            qops.append((a, b))
            qcache[k] = Poly.var('Q%d' % qn[0])
        return qcache[k]

    def symbinop(I_, op, a, b, ty):
        if op == 'udiv':
            return quotient(a, b)
        if op == 'urem':
            # a % b = a - floor(a/b)*b, an integer in [0, b)
            r_ = as_poly(a) - quotient(a, b) * as_poly(b)
            urems.add(r_.key())
            return r_
        return None
    opts = {'decide': decide, 'symbolic_binop': symbinop,
            # cofactors kept in a wider signed type and narrowed at the end: the residue is what the invariant speaks about
            # (a narrowing that loses bits would show in the singleton tier)
            'symbolic_trunc': (lambda I_, x, ws, wd: x),
            'summ_re': [(re.compile(r'^_ZStls|^_ZNSolsE|^_ZNSo'), lambda I_, a, i: a[0])]}
    I = Interp(mod, summ, opts)
    rin = Region('in1', 'param', extent=8, elem='field')
    rout = Region('result', 'param', extent=8, elem='field')
    A = Poly.var('in1[0]')
    try:
        # base case: from the entry to the loop header
        env = {fi.fn.params[0][1]: Ptr(rout, 0), fi.fn.params[1][1]: Ptr(rin, 0)}
        kind, prev, env1 = I.run_fragment(name, env, fi.fn.order[0], stop_at=hdr)
        if kind != 'stop':
            raise Incomplete('the loop header is not reached from the entry')
        init = {}
        for ph in phis:
            for v, l in ph.a:
                if l == prev:
                    init[ph.dst] = I.val(env1, v, ph.ty)
        roles = {}
        for d, v in init.items():
            r_ = res(ctx, v)
            if isinstance(v, int) and v == 0:
                roles['t'] = d
            elif isinstance(v, int) and v == 1:
                roles['newt'] = d
            elif isinstance(v, int) and v % P == 0:
                roles['r'] = d
            elif r_ == A:
                roles['newr'] = d
        if set(roles) != {'t', 'newt', 'r', 'newr'}:
            raise Incomplete('initial loop state does not have the extended-Euclid form (t=0, r=p, newt=1, newr=a): %s' % init)
        b1 = (res(ctx, init[roles['t']]) * A - res(ctx, init[roles['r']])).modp()
        b2 = (res(ctx, init[roles['newt']]) * A - res(ctx, init[roles['newr']])).modp()
        (rep.ok if not b1.d and not b2.d else rep.refute)('inv:base', 'loop-invariant', site,
                                                          'on loop entry t*a - r = %s and newt*a - newr = %s (mod p)' % (b1, b2))
        # inductive step: one iteration from a havocked state
        sym = {roles['t']: Poly.var('T'), roles['r']: Poly.var('R'), roles['newt']: Poly.var('NT'), roles['newr']: Poly.var('NR')}
        env2 = dict(env1)
        env2.update(sym)
        forced[Poly.var('NR').key()] = False       # loop guard newr != 0 holds
        kind, prev2, env3 = I.run_fragment(name, env2, hdr, prev=None, skip_phis=True, stop_at=hdr)
        if kind != 'stop':
            raise Incomplete('the loop body does not return to the header')
        nxt = {}
        for ph in phis:
            for v, l in ph.a:
                if l == prev2:
                    nxt[ph.dst] = res(ctx, I.val(env3, v, ph.ty))
        T, R, NT, NR = [Poly.var(x) for x in ('T', 'R', 'NT', 'NR')]
        Q = Poly.var('Q1')
        probs = []
        if nxt[roles['t']] != NT:
            probs.append("t' = %s, expected newt" % nxt[roles['t']])
        if nxt[roles['r']] != NR:
            probs.append("r' = %s, expected newr" % nxt[roles['r']])
        lhs = (nxt[roles['newt']] * A - nxt[roles['newr']]).modp()
        rhs = ((T * A - R) - Q * (NT * A - NR)).modp()
        if lhs != rhs:
            probs.append("newt'*a - newr' = %s is not (t*a - r) - q*(newt*a - newr)" % str(lhs)[:120])
        if qn[0] != 1:
            probs.append('%d quotients computed in one iteration' % qn[0])
        (rep.refute if probs else rep.ok)('inv:step', 'loop-invariant', site,
                                          '; '.join(probs) if probs else "from any state: t' = newt, r' = newr, newt'*a - newr' = (t*a - r) - q*(newt*a - newr): the invariant t*a = r, newt*a = newr (mod p) is preserved")
        # R-EUCLID: the shape facts that make this loop the integer Euclidean algorithm on (p, canonical(a)), from which
        # termination and r_exit = gcd(p, a) = 1 follow by the division lemma (0 <= r - floor(r/newr)*newr < newr) and
        # gcd(newr, r mod newr) = gcd(r, newr); p prime and 0 < canonical(a) < p
        shape = []
        if not (isinstance(init[roles['r']], int) and init[roles['r']] == P):
            shape.append('r does not start at p exactly (%s)' % (init[roles['r']],))
        nv = init[roles['newr']]
        if not (isinstance(nv, Poly) and list(nv.vars()) == ['canon{in1[0]}'] and nv == Poly.var('canon{in1[0]}')):
            shape.append('newr does not start at the canonical value of the operand (%s)' % (nv,))
        if len(qops) != 1 or as_poly(qops[0][0]) != R or as_poly(qops[0][1]) != NR:
            shape.append('the quotient is not floor(r / newr) of the loop variables (%s)' % (qops[:1],))
        if nxt[roles['newr']] != (R - Q * NR).modp():
            shape.append("newr' = %s is not r - q*newr" % str(nxt[roles['newr']])[:80])
        raw_next = None
        for ph in phis:
            if ph.dst == roles['newr']:
                for v, l in ph.a:
                    if l == prev2:
                        raw_next = I.val(env3, v, ph.ty)
        def is_canon(v):
            if isinstance(v, int):
                return 0 <= v < P
            if isinstance(v, Poly) and v.key() in urems:
                return True           # r % newr is an integer in [0, newr), hence below p
            if isinstance(v, Poly) and len(qops) == 1 and v == as_poly(qops[0][0]) - Q * as_poly(qops[0][1]):
                return True           # r - (r / newr) * newr in plain integers: the same remainder (division lemma)
            if isinstance(v, Poly):
                vs = list(v.vars())
                return len(vs) == 1 and vs[0].startswith('canon{') and v == Poly.var(vs[0])
            return isinstance(v, FV) and v.ts in ('zero', 'bits8', 'bits32', 'canon') and not v.sh
        if not is_canon(raw_next):
            shape.append("newr' is not taken as a canonical integer (%s): it could exceed newr by p" % (str(raw_next)[:60],))
        if shape:
            rep.incomplete('inv:euclid', 'R-EUCLID', site, 'the loop does not have the integer-Euclid shape, termination and r_exit = 1 are not established: ' + '; '.join(shape))
        else:
            rep.ok('inv:euclid', 'R-EUCLID', site, "r0 = p, newr0 = canonical(a) in (0,p), q = floor(r/newr), (r', newr') = (newr, canonical(r - q*newr)) = (newr, r mod newr): "
                   'newr strictly decreases (ranking function), gcd(r, newr) is invariant, so the loop ends with r = gcd(p, a) = 1 and result*a = 1 (mod p)')
        # exit: the result is t (a sign test on a signed cofactor - `if (t < 0) t += p` - is explored both ways)
        forced[Poly.var('NR').key()] = True
        ok = True
        got = None
        for sgn in (False, True):
            sign_seen = [False]
            opts['decide'] = (lambda pred, a, b, sgn=sgn, base=decide: (sign_seen.__setitem__(0, True) or (sgn if pred in ('slt', 'sle') else (not sgn)))
                              if (pred in ('slt', 'sle', 'sgt', 'sge') and (as_poly(a) - as_poly(b)).vars() <= {'T', 'NT'} and (as_poly(a) - as_poly(b)).vars()) else base(pred, a, b))
            I.opts['decide'] = opts['decide']
            I.writes = []
            I.mem.pop((rout, 0), None)
            kind, rv, env4 = I.run_fragment(name, dict(env2), hdr, prev=None, skip_phis=True, stop_at=None)
            got = I.mem.get((rout, 0))
            ok = ok and kind == 'ret' and got is not None and res(ctx, got[0]) == T
            if not sign_seen[0]:
                break
        I.opts['decide'] = decide
        (rep.ok if ok else rep.refute)('inv:exit', 'loop-invariant', site,
                                       'on exit (newr = 0) the result is t, hence result*a = r (mod p) with r the last non-zero remainder' if ok
                                       else 'on exit the result is %s, not t' % (got,))
        rep.sample(dict(function='Goldilocks::inv', loop_header=hdr, roles={k: v for k, v in roles.items()}))
    except (Incomplete, IRError, KeyError) as e:
        rep.incomplete('inv:invariant', 'loop-invariant', site, str(e))
    except Sink as e:
        rep.refute('inv:invariant', 'loop-invariant', sink_site(e, site), str(e))


INV_POINTS = [1, 2, 3, 5, 7, 255, 256, (1 << 32) - 1, 1 << 32, (1 << 32) + 1, (1 << 63), (1 << 63) + 1, P - 2, P - 1, P + 1, P + 2, P + 7,
              (1 << 64) - 1, (1 << 64) - 2, 0x0123456789abcdef, 0xfedcba9876543210, 0x5555555555555555, 0xaaaaaaaaaaaaaaaa,
              0x00000001fffffffe, 0xfffffffe00000002, 4294967297 * 3, 18446744069414584320 // 3]


def _slow_euclid_operands():
    """operands with long Euclidean remainder sequences against p: p/phi and its neighbours, and ratios of consecutive
    Fibonacci numbers scaled to p (the worst case of Lame's bound) - a loop that gives up early is seen on these"""
    out = []
    num, den = 1, 1
    fibs = [(1, 1)]
    for _ in range(90):
        num, den = den, num + den
        fibs.append((num, den))
    for a_, b_ in fibs[20:90:7]:
        v = P * a_ // b_
        out += [v, v + 1, v - 1]
    phi_inv = 11400714818402800990        # floor(2^64 / phi)
    v = P * phi_inv >> 64
    out += [v, v + 1, v - 1, v + 1753936218, P - v, (P - v) + 1]
    out += [11400714816648762772]
    return [x for x in out if 0 < x < (1 << 64) and x % P != 0]


def _wrap_threshold_operands(tier):
    """operands next to 2^64 * k / m for small m (and the same for p): where a small multiple of the operand (2a, 3a, 5a ...) or of
    an early remainder wraps 64 bits - a quotient shortcut that compares with k*newr in machine arithmetic fails exactly there"""
    out = set()
    ms = range(2, 10) if tier == 'quick' else range(2, 18)
    for m in ms:
        for k in range(1, m):
            for base in ((k << 64) // m, (P * k) // m):
                for d in (-2, -1, 0, 1, 2, 3):
                    v = base + d
                    if 0 < v < (1 << 64) and v % P:
                        out.add(v)
    return sorted(out)


def check_inv_points(rep, mod, tier):
    """constant propagation through inv for singleton operands (both canonical and non-canonical representations):
    the loop must terminate within the Euclid bound and the result times the operand must be one"""
    name = mod.find(SIG_INV)
    site = site_of(mod, name)
    pts = list(INV_POINTS) + _slow_euclid_operands() + _wrap_threshold_operands(tier)
    if tier != 'quick':
        import random
        rnd = random.Random(10)
        pts += [rnd.randrange(1, 1 << 64) for _ in range(200)]
    bad = 0
    for a in pts:
        if a % P == 0:
            continue
        tag = 'inv:point a=0x%x' % a
        ctx = contracts.Ctx()
        summ, _ = contracts.wrapper_summaries(mod, ctx)
        summ.pop(name, None)
        I = Interp(mod, summ, {'summ_re': [(re.compile(r'^_ZStls|^_ZNSolsE|^_ZNSo'), lambda I_, a_, i: a_[0])], 'max_steps': 400000})
        rin = Region('in1', 'param', extent=8, elem='field')
        rout = Region('result', 'param', extent=8, elem='field')
        I.mem[(rin, 0)] = (a, 8)
        if a & 1:
            rout = rin                   # every other operand in place: inv(x, x)
        try:
            I.call(name, [Ptr(rout, 0), Ptr(rin, 0)])
            g = I.mem.get((rout, 0))
            v = g[0] if g else None
            v = v.nf.cval() if isinstance(v, FV) and v.nf.isconst() else v
            if not isinstance(v, int):
                rep.incomplete(tag, 'inv-singleton', site, 'the result is not a constant (%s)' % (v,))
                bad += 1
            elif (v * a) % P != 1:
                rep.refute(tag, 'inv-singleton', site, 'inv(0x%x) = 0x%x, product with the operand is %d (mod p), not 1' % (a, v, (v * a) % P), witness={'a': a})
                bad += 1
        except Sink as e:
            rep.refute(tag, 'inv-singleton', sink_site(e, site), 'inv(0x%x): %s' % (a, e), witness={'a': a})
            bad += 1
        except Incomplete as e:
            if 'step budget' in str(e):
                rep.refute(tag, 'inv-singleton', site, 'inv(0x%x) does not return within 400000 interpreted instructions (the Euclidean loop needs at most 93 iterations)' % a, witness={'a': a})
            else:
                rep.incomplete(tag, 'inv-singleton', site, str(e))
            bad += 1
        except IRError as e:
            rep.incomplete(tag, 'inv-singleton', site, str(e))
            bad += 1
    if not bad:
        rep.ok('inv:points', 'inv-singleton', site, 'inv(a)*a = 1 (mod p) and termination for %d singleton operands incl. non-canonical representations and both ends of the range' % len(pts))


def check_div(rep, mod):
    for sig in ('Goldilocks::div(%s&, %s const&, %s const&)' % (E, E, E), 'Goldilocks::div(%s const&, %s const&)' % (E, E)):
        try:
            name = mod.find(sig)
        except KeyError:
            rep.incomplete('div:' + sig, 'div-is-mul-inv', '', 'not found')
            continue
        ps0 = harness.describe(mod, name)
        ins0 = [p.name for p in ps0 if p.dty == 'E const&']
        outs0 = [p.name for p in ps0 if p.dty == 'E&']
        hyps = [None]
        if outs0 and len(ins0) == 2:
            # in place: the quotient written over the dividend, over the divisor, a / a, and all three the same object
            hyps += [{ins0[0]: outs0[0]}, {ins0[1]: outs0[0]}, {ins0[1]: ins0[0]}, {ins0[0]: outs0[0], ins0[1]: outs0[0]}]
        elif len(ins0) == 2:
            hyps += [{ins0[1]: ins0[0]}]
        for al in hyps:
            tag = 'div:' + sig + ('' if not al else ' alias=' + ','.join('%s=%s' % kv for kv in sorted(al.items())))
            ctx = contracts.Ctx()
            summ, _ = contracts.wrapper_summaries(mod, ctx)
            try:
                eff = harness.run_routine(mod, name, summ, alias=al)
                ins = [p for p in eff.params if p.dty == 'E const&']
                a, b = [Poly.var('%s[0]' % p.region.name) for p in ins]
                want = (a * Poly.var('Inv(%s)' % b)).modp()
                outp = [p for p in eff.params if p.dty == 'E&']
                got = eff.writes.get((outp[0].region.name, 0)) if outp else eff.ret
                ok = isinstance(got, FV) and got.nf == want
                (rep.ok if ok else rep.refute)(tag, 'div-is-mul-inv', site_of(mod, name),
                                               'div(a,b) = a * inv(b) on the operand values at the call: with inv(b)*b = 1 this gives div(a,b)*b = a' if ok
                                               else 'div computes %s, expected %s' % (str(got)[:120], want))
            except (Incomplete, IRError, Sink) as e:
                rep.incomplete(tag, 'div-is-mul-inv', site_of(mod, name), str(e))


def exponents(tier):
    es = set(range(0, 71 if tier == 'quick' else 300))
    for k in range(0, 64):
        es |= {1 << k, (1 << k) - 1, (1 << k) + 1}
    es |= {(1 << 64) - 1, (1 << 64) - 2, 0xAAAAAAAAAAAAAAAA, 0x5555555555555555, P, P - 1, P - 2}
    return sorted(e for e in es if 0 <= e < (1 << 64))


def check_exp(rep, mod, tier):
    # every overload named Goldilocks::exp (found by name: the base may be taken by value or by reference)
    names = harness.family(mod, r'^Goldilocks::exp\(')
    if not names:
        rep.incomplete('exp', 'exp-bounded-exponents', '', 'no Goldilocks::exp overload found')
    first = None
    for name in names:
        sig = mod.dem[name]
        site = site_of(mod, name)
        ps0 = [p for p in harness.describe(mod, name) if not p.is_this]
        outs0 = [p for p in ps0 if p.dty == 'E&']
        bases = [p for p in ps0 if p.dty in ('E', 'E const&')]
        exps = [p for p in ps0 if p.irty[0] == 'i' and p.dty != 'E']
        if len(bases) != 1 or len(exps) != 1:
            rep.incomplete('exp:' + sig, 'exp-bounded-exponents', site, 'parameters are not (result,) base, exponent')
            continue
        if outs0 and first is None:
            first = name
        hyps = [None]
        if outs0 and bases[0].dty == 'E const&':
            hyps.append({bases[0].name: outs0[0].name})        # in place: exp(x, x, e)
        for al in hyps:
            tag0 = 'exp:' + sig + ('' if not al else ' alias=%s=%s' % list(al.items())[0])
            bad = []
            n = 0
            for e in exponents(tier):
                pp = PPTable()
                ctx = contracts.Ctx(pp=pp)
                summ, _ = contracts.wrapper_summaries(mod, ctx)
                try:
                    eff = harness.run_routine(mod, name, summ, values={exps[0].name: e}, alias=al)
                except (Incomplete, IRError, Sink) as ex:
                    rep.incomplete('%s e=%d' % (tag0, e), 'exp-bounded-exponents', site, str(ex))
                    bad.append(e)
                    break
                n += 1
                outp = [p for p in eff.params if p.dty == 'E&']
                got = eff.writes.get((outp[0].region.name, 0)) if outp else eff.ret
                got = FV.const(got) if isinstance(got, int) else got
                bp = [p for p in eff.params if p.name == bases[0].name][0]
                b = Poly.var(bp.name) if bp.dty == 'E' else Poly.var('%s[0]' % bp.region.name)
                # reference power by the binary method in a different order (left-to-right), same AC-normalising table
                if e == 0:
                    want = Poly.const(1)
                else:
                    acc = None
                    for bit in bin(e)[2:]:
                        if acc is not None:
                            acc = ctx.mul(acc, acc)
                        if bit == '1':
                            acc = b if acc is None else ctx.mul(acc, b)
                    want = acc
                if not isinstance(got, FV) or got.nf != want:
                    bad.append(e)
                    rep.refute('%s e=%d' % (tag0, e), 'exp-bounded-exponents', site, 'exp(base, %d) = %s, expected base^%d' % (e, str(got)[:100], e))
                    if len(bad) >= 5:
                        break
            if not bad:
                rep.ok(tag0, 'exp-bounded-exponents', site, 'base^e for %d exponents (0..%d, 2^k, 2^k+-1, 2^64-1, alternating bit patterns, p, p-1)' % (
                    n, 70 if tier == 'quick' else 299))
    sigs = [mod.dem[first]] if first else [mod.dem[n_] for n_ in names[:1]]
    if not sigs:
        return
    # termination: the loop variable is halved every iteration and the loop leaves when it becomes zero
    name = mod.find(sigs[0])
    smod = front.module('avx2', sroa=True)
    fi = FnInfo(smod.fn(smod.find(sigs[0])))
    hdr = loop_header(fi)
    ok = False
    why = 'loop header not found'
    if hdr:
        for ph in [i for i in fi.fn.blocks[hdr] if i.op == 'phi']:
            for v, l in ph.a:
                if v[0] == 'r':
                    d = fi.defs.get(v[1])
                    if d and d[1].op == 'lshr' and d[1].a[0] == ('r', ph.dst) and d[1].a[1][0] == 'i' and d[1].a[1][1] >= 1:
                        # the shifted value must control the exit
                        for ub, u in fi.users(d[1].dst):
                            if u.op == 'icmp' and ('i', 0) in u.a:
                                ok = True
                                why = 'loop variable %s is replaced by %s >> %d each iteration and the loop exits when it is zero: at most 64 iterations' % (
                                    ph.dst, ph.dst, d[1].a[1][1])
    if hdr and not ok:
        # counted form: the exit test compares an induction variable (phi, incremented by a positive constant) with a
        # bound defined outside the loop: bound - i is a ranking function
        dom = fi.dominators()
        loop = {hdr}
        for b, ss in fi.succ.items():
            if hdr in ss and hdr in dom[b]:
                todo = [b]
                while todo:
                    x = todo.pop()
                    if x in loop:
                        continue
                    loop.add(x)
                    todo += [q for q, qs in fi.succ.items() if x in qs]
        for ph in [i for i in fi.fn.blocks[hdr] if i.op == 'phi']:
            step = None
            for v, l in ph.a:
                if v[0] == 'r':
                    d = fi.defs.get(v[1])
                    if d and d[1].op == 'add' and ('r', ph.dst) in d[1].a:
                        k = [a for a in d[1].a if a != ('r', ph.dst)]
                        if k and k[0][0] == 'i' and 1 <= k[0][1] < (1 << 31):
                            step = k[0][1]
            if step is None:
                continue
            for ub, u in fi.users(ph.dst):
                if u.op == 'icmp' and ub == hdr and u.x in ('slt', 'ult', 'sle', 'ule', 'ne') and u.a[0] == ('r', ph.dst):
                    bnd = u.a[1]
                    inv = bnd[0] == 'i' or (bnd[0] == 'r' and (fi.defs.get(bnd[1]) is None or fi.defs[bnd[1]][0] not in loop))
                    if inv and (u.x != 'ne' or step == 1):
                        ok = True
                        why = 'induction variable %s grows by %d each iteration and the loop exits when it reaches the loop-invariant bound %s' % (
                            ph.dst, step, bnd[1])
    site = site_of(mod, name)
    if ok:
        rep.ok('exp:termination', 'ranking-function', site, why)
    else:
        rep.incomplete('exp:termination', 'ranking-function', site, 'the halving pattern of the exponent loop was not recognised (%s)' % why)


def run(rep, tier, seed):
    rep.rule_text = ('inv: R-MUSTEXIT on the CFG (zero operands end the process before any return or store; the guard is the residue test, so 0 and p '
                     'are both refused); inductive loop argument: one abstract iteration of the extended-Euclid loop from a havocked state preserves '
                     't*a = r, newt*a = newr (mod p), entry establishes it, exit returns t; div = a*inv(b) in both overloads; exp: abstract '
                     'interpretation with the exponent fixed by constant propagation for a bounded exponent set gives the AC-normalised power base^e, '
                     'and the exponent loop has a ranking function (halving or counted; termination for every exponent); inv additionally: R-EUCLID shape facts '
                     '(r0 = p, newr0 = canonical(a), q = floor(r/newr) of the loop variables, newr\' = canonical(r - q*newr)) giving termination and r_exit = 1, '
                     'and constant propagation through inv for singleton operands (termination within the Euclid bound, inv(a)*a = 1)')
    mod = front.module('avx2', sroa=True)
    check_refusal(rep, mod)
    check_inv_invariant(rep, mod)
    check_inv_points(rep, front.module('avx2'), tier)
    check_div(rep, front.module('avx2'))
    check_exp(rep, front.module('avx2'), tier)
    rep.note('inv: termination and r_exit = 1 rest on the R-EUCLID shape facts plus two textbook lemmas (division lemma; gcd(newr, r mod newr) = gcd(r, newr)) '
             'and the primality of p; exp for exponents outside the bounded set is not decided (its loop structure and termination are)')
    rep.assumptions += ['inv: the division lemma, the gcd step lemma and the primality of p = 2^64-2^32+1 are taken as mathematics, not re-proved',
                        'exp: bounded in the exponent']
    rep.trusted = ['clang 14 lowering', 'glv interpreter', 'scalar field contracts (C01), toU64 contract (C15)']
