"""C19: transform objects are reusable - every call returns what a fresh object returns, after any call history."""
from .. import nttcheck, nttrules, front
from ..nttcheck import Runner, log2
from ..interp import Ptr, Region

LEVEL = 'model_checking'


def state_key(W, this):
    """canonical serialisation of everything reachable from the object (fields, owned tables)"""
    I = W.I
    seen = {}
    out = []

    def ser(reg):
        if reg in seen:
            return seen[reg]
        i = len(seen)
        seen[reg] = i
        cells = sorted(((o, v) for (r, o), (v, sz) in I.mem.items() if r is reg and isinstance(o, int)), key=lambda x: x[0])
        body = []
        for o, v in cells:
            if isinstance(v, Ptr):
                if v.reg.kind == 'null':
                    body.append((o, 'null'))
                else:
                    body.append((o, ('ptr', ser(v.reg), v.off, v.reg.freed, v.reg.extent)))
            else:
                body.append((o, repr(v)))
        out.append((i, reg.kind, reg.extent, tuple(body)))
        return i
    ser(this.reg)
    # process-wide state written by calls since construction (function-local statics and their guards, file-scope variables):
    # part of the state a later call may depend on
    for reg in sorted(I.global_writes, key=lambda r: r.name):
        out.append(('global', reg.name, ser(reg)))
    return tuple(out)


def ops_for(cap, tier):
    ops = []
    n = 1
    while n <= cap:
        for (nphase, nblock) in ((3, 1), (2, 2)):
            ops.append(('ntt', n, nphase, nblock))
            ops.append(('intt', n, nphase, nblock))
        n *= 2
    N = 1
    while N <= cap:
        Next = N
        while Next <= cap:
            ops.append(('ext', N, Next, 3, 1))
            if tier == 'thorough':
                ops.append(('ext', N, Next, 2, 2))
            Next *= 2
        N *= 2
    return ops


def run(rep, tier, seed):
    rep.rule_text = ('reachability over the abstract state of one transform object: starting from the freshly constructed object, every operation of '
                     'the alphabet {NTT, INTT, extendPol} x sizes x two phase/block settings is applied in every distinct reachable object state '
                     '(state = all fields and owned tables plus every global written by a call since construction, canonically serialised); each call must deliver exactly the specified coefficient '
                     'vectors (= what a fresh object delivers, C03-C05), for all input data. Closure of the explored state set under all operations '
                     'covers every finite call sequence over the alphabet. Shape-independent rules: field write sets per method, memo guard on the '
                     'cached coset table')
    ncols = 2
    total_states = 0
    total_trans = 0
    for cap in ((4, 16) if tier == 'quick' else (4, 16, 64)):
        R = Runner('avx2')
        W, this, snap0 = R.world(cap, 1)
        ops = ops_for(cap, tier)
        states = {state_key(W, this): snap0}
        order = [snap0]
        names = {id(snap0): 'fresh'}
        hist = {id(snap0): []}
        qi = 0
        while qi < len(order):
            snap = order[qi]
            qi += 1
            for op in ops:
                W.restore(snap)
                R.worlds[(cap, 1, 1)] = (W, this, snap)
                if op[0] in ('ntt', 'intt'):
                    r = R.run_transform(op[0], cap, op[1], ncols, op[2], op[3], False, 'other', 1, restore=False)
                else:
                    r = R.run_extend(cap, op[1], op[2], ncols, op[3], op[4], False, 1, True, restore=False)
                total_trans += 1
                h = hist[id(snap)]
                tag = 'history:cap=%d [%s] then %s' % (cap, ' ; '.join(map(str, h)) or 'fresh', op)
                if r is None:
                    rep.ok(tag, 'history-reachability', 'src/ntt_goldilocks.cpp', 'call result equals the specification in this object state')
                else:
                    st, msg, loc = r
                    site = '%s:%s' % (front.rel(loc[0]), loc[1]) if loc and loc[0] else 'src/ntt_goldilocks.cpp'
                    (rep.refute if st == 'refuted' else rep.incomplete)(tag, 'history-reachability', site, msg)
                    continue
                k = state_key(W, this)
                if k not in states:
                    ns = W.snapshot()
                    states[k] = ns
                    order.append(ns)
                    hist[id(ns)] = h + [op]
                    if len(order) > 200:
                        rep.incomplete('states:cap=%d' % cap, 'history-reachability', '', 'more than 200 distinct object states')
                        break
        total_states += len(order)
        rep.sample(dict(capacity=cap, operations=len(ops), distinct_object_states=len(order),
                        example_history=[str(x) for x in hist[id(order[-1])]]))
        # leave the world consistent
        R.worlds[(cap, 1, 1)] = (W, this, snap0)
    rep.cov['states'] = total_states
    rep.cov['transitions'] = total_trans
    rep.cov['traces_validated_against_impl'] = 0
    rep.cov['exhaustive'] = True
    nttrules.run_rules(rep, ('effect', 'memo-guard', 'omp-global'))
    rep.assumptions += ['operation alphabet bounded (sizes <= capacity <= %d, ncols = 2, two phase/block settings); universal in data' % (16 if tier == 'quick' else 64),
                        'the implementation itself is interpreted abstractly (no model is extracted), so no trace validation is needed']
    rep.trusted = ['clang 14 lowering', 'glv interpreter', 'scalar field contracts (C01)', 'GMP model']
