"""C19: transform objects are reusable - every call returns what a fresh object returns, after any call history."""
import re
from .. import nttcheck, nttrules, front
from ..nttcheck import Runner, log2
from ..interp import Ptr, Region
from ..poly import FV

LEVEL = 'model_checking'


def state_key(W, this):
    """canonical serialisation of everything reachable from the object (fields, owned tables)"""
    I = W.I
    seen = {}
    out = []

    def ser(reg):
        if reg in seen:
            return seen[reg]
        i = len(seen)
        seen[reg] = i
        cells = sorted(((o, v) for (r, o), (v, sz) in I.mem.items() if r is reg and isinstance(o, int)), key=lambda x: x[0])
        body = []
        for o, v in cells:
            if isinstance(v, Ptr):
                if v.reg.kind == 'null':
                    body.append((o, 'null'))
                else:
                    body.append((o, ('ptr', ser(v.reg), v.off, v.reg.freed, v.reg.extent)))
            elif isinstance(v, FV) and not v.nf.isconst():
                # data left over from an earlier call (a scratch buffer the object keeps): which data it is does not make a
                # new object state - the tables the calls depend on hold constants
                body.append((o, 'data'))
            else:
                body.append((o, repr(v)))
        out.append((i, reg.kind, reg.extent, tuple(body)))
        return i
    ser(this.reg)
    # process-wide state written by calls since construction (function-local statics and their guards, file-scope variables):
    # part of the state a later call may depend on
    for reg in sorted(I.global_writes, key=lambda r: r.name):
        out.append(('global', reg.name, ser(reg)))
    return tuple(out)


def ops_for(cap, tier):
    """the call alphabet: NTT / INTT (two phase/block settings, two columns) and extendPol over every (N, N_ext) pair with two
    different column counts - a later call may differ from an earlier one in rows, in columns, or in both"""
    ops = []
    n = 1
    while n <= cap:
        for (nphase, nblock) in ((3, 1), (2, 2)):
            ops.append(('ntt', n, nphase, nblock))
            ops.append(('intt', n, nphase, nblock))
        n *= 2
    N = 1
    while N <= cap:
        Next = N
        while Next <= cap:
            ops.append(('ext', N, Next, 3, 1, 2))
            ops.append(('ext', N, Next, 3, 1, 3))
            if tier == 'thorough':
                ops.append(('ext', N, Next, 2, 2, 2))
            Next *= 2
        N *= 2
    return ops


def explore(rep, tier, caps, rule='history-reachability', sinks_only=False, max_states=300):
    """reachability closure; -> (states, transitions).  sinks_only: report only memory-safety sinks met on the way (C18)"""
    total_states = 0
    total_trans = 0
    for cap in caps:
        # a capacity may come with the thread count the object is built for: (capacity, nThreads).  The team is always one
        # abstract thread (OpenMP never promises the team that was asked for)
        cap, nth = cap if isinstance(cap, tuple) else (cap, 1)
        R = Runner('avx2')
        W, this, snap0 = R.world(cap, nth)
        ops = ops_for(cap, tier)
        states = {state_key(W, this): snap0}
        order = [snap0]
        hist = {id(snap0): []}
        qi = 0
        while qi < len(order):
            snap = order[qi]
            qi += 1
            for op in ops:
                W.restore(snap)
                R.worlds[(cap, nth, 1)] = (W, this, snap)
                if op[0] in ('ntt', 'intt'):
                    r = R.run_transform(op[0], cap, op[1], 2, op[2], op[3], False, 'other', nth, restore=False)
                else:
                    r = R.run_extend(cap, op[1], op[2], op[5], op[3], op[4], False, nth, True, restore=False)
                total_trans += 1
                h = hist[id(snap)]
                tag = 'history:cap=%d%s [%s] then %s' % (cap, '' if nth == 1 else ' nThreads=%d' % nth, ' ; '.join(map(str, h)) or 'fresh', op)
                if r is None:
                    if not sinks_only:
                        rep.ok(tag, rule, 'src/ntt_goldilocks.cpp', 'call result equals the specification in this object state')
                else:
                    st, msg, loc = r
                    site = '%s:%s' % (front.rel(loc[0]), loc[1]) if loc and loc[0] else 'src/ntt_goldilocks.cpp'
                    is_sink = re.match(r'^(oob|uninit|dealloc|doublefree|null|rowrite|shift|uaf|trap|div)\b', msg or '') is not None
                    if not sinks_only:
                        (rep.refute if st == 'refuted' else rep.incomplete)(tag, rule, site, msg)
                    elif st == 'refuted' and is_sink:
                        rep.refute(tag, rule, site, msg)
                    continue
                k = state_key(W, this)
                if k not in states:
                    ns = W.snapshot()
                    states[k] = ns
                    order.append(ns)
                    hist[id(ns)] = h + [op]
                    if len(order) > max_states:
                        (rep.note if sinks_only else (lambda m: rep.incomplete('states:cap=%d' % cap, rule, '', m)))('more than %d distinct object states (capacity %d)' % (max_states, cap))
                        break
            if len(order) > max_states:
                break
        total_states += len(order)
        if not sinks_only:
            rep.sample(dict(capacity=cap, operations=len(ops), distinct_object_states=len(order),
                            example_history=[str(x) for x in hist[id(order[-1])]]))
        R.worlds[(cap, nth, 1)] = (W, this, snap0)
    return total_states, total_trans


def run(rep, tier, seed):
    rep.rule_text = ('reachability over the abstract state of one transform object: starting from the freshly constructed object, every operation of '
                     'the alphabet {NTT, INTT, extendPol} x sizes x two phase/block settings is applied in every distinct reachable object state '
                     '(state = all fields and owned tables plus every global written by a call since construction, canonically serialised); each call must deliver exactly the specified coefficient '
                     'vectors (= what a fresh object delivers, C03-C05), for all input data. Closure of the explored state set under all operations '
                     'covers every finite call sequence over the alphabet. Shape-independent rules: field write sets per method, memo guard on the '
                     'cached coset table')
    total_states, total_trans = explore(rep, tier, (4, 16, (4, 3)) if tier == 'quick' else (4, 16, 64, (4, 3), (16, 2)))
    rep.cov['states'] = total_states
    rep.cov['transitions'] = total_trans
    rep.cov['traces_validated_against_impl'] = 0
    rep.cov['exhaustive'] = True
    nttrules.run_rules(rep, ('effect', 'assign', 'memo-guard', 'omp-global'))
    rep.assumptions += ['operation alphabet bounded (sizes <= capacity <= %d, ncols = 2, two phase/block settings); universal in data' % (16 if tier == 'quick' else 64),
                        'the implementation itself is interpreted abstractly (no model is extracted), so no trace validation is needed']
    rep.trusted = ['clang 14 lowering', 'glv interpreter', 'scalar field contracts (C01)', 'GMP model']
