"""C11: AVX512 lane kernels equal the scalar field operation in every lane, for every input allowed by their contracts."""
from .. import kcheck

LEVEL = 'proof'


def run(rep, tier, seed):
    rep.rule_text = ('kernel mode on the -D__AVX512__ configuration (never compiled by the shipped test build): each contracted AVX512 kernel, per lane '
                     'and precondition box, equals the field operation mod p / the exact product over Z; mask compares are unsigned icmp + select in '
                     'the IR and are decided per cell; outputs stay inside the contract post-range')
    n = kcheck.prove_field_contracts(rep, 'avx512', 8, seed=seed)
    rep.floor('contracted AVX512 kernels', n, 14)
    rep.trusted = ['clang 14 lowering of the AVX512 intrinsics to generic IR', 'opt-14 sroa,early-cse', 'glv kernel-mode semantics']
    rep.assumptions += ['lanes are analysed one at a time; a value of another lane flowing into the analysed lane is reported as incomplete']
