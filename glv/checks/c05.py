"""C05: extendPol is the low-degree extension onto the shifted coset (bounded shapes, all data)."""
from .. import nttcheck, nttrules

LEVEL = 'proof'


def run(rep, tier, seed):
    rep.rule_text = ('extendPol interpreted with concrete (N, N_ext, ncols, nphase, nblock, buffer) and symbolic inputs, including the internally '
                     'constructed extension object (constructor through the GMP model, destructor at scope exit): out[k][c] must have the coefficient '
                     'vector of f_c(7*w_Next^k) = sum_j in[j][c] * (1/N) sum_i (7 w_Next^k / w_N^j)^i; in place and with a separate input')
    cfgs = nttcheck.ext_configs(tier, seed)
    res = nttcheck.run_parallel('ext', cfgs)
    nttcheck.record(rep, 'extendPol', res, nttcheck.describe_ext, 'lde-bounded-shape')
    ntab = nttcheck.check_tables(rep, tier)
    rep.floor('table checks', ntab, 20)
    nttcheck.threshold_notes(rep, 'ext')
    rep.floor('configurations', len(res), 300 if tier == 'quick' else 3000)
    nttrules.run_rules(rep, ('compute-r', 'shift-const', 'fpround-ntt'))
    rep.sample(dict(kind='extendPol', example=nttcheck.describe_ext(cfgs[len(cfgs) // 2]), configurations=len(cfgs)))
    rep.assumptions += ['bounded in shape (N <= N_ext <= %d); universal in data' % (32 if tier == 'quick' else 128)]
    rep.trusted = ['clang 14 lowering', 'glv interpreter', 'scalar field contracts (C01)', 'GMP model']
