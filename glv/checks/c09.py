"""C09: scalar cubic-extension arithmetic is exact in F_p[x]/(x^3 - x - 1)."""
import re
from .. import front, contracts, harness
from ..interp import Incomplete, Sink, Interp, Region, Ptr
from ..ir import IRError
from ..poly import Poly, FV, C, P
from ..wrapcheck import site_of, sink_site, explore_paths
from ..specs.ext_spec import mulspec

LEVEL = 'proof'
E3 = r'Goldilocks::Element (const )?\((&|\*)\) \[3\]'


class NeedDecision(Exception):
    def __init__(s, key):
        s.key = key


def kind(p):
    dt = p.dty
    if re.match(r'E( const)? \((&|\*)\)\s*\[3\]$', dt):
        return 'ext'
    if dt == 'E':
        return 'base'
    if dt in ('E&', 'E const&'):
        return 'baseref'
    if dt in ('ul const&', 'ul&'):
        return 'intref'
    if dt == 'ul':
        return 'int'
    if 'basic_string' in dt:
        return 'string'
    raise Incomplete('parameter %s of type %s' % (p.name, dt))


def comps(p, regname):
    k = kind(p)
    rn = regname(p)
    if k == 'ext':
        return [Poly.var('%s[%d]' % (rn, j)) for j in range(3)], 3
    if k in ('base', 'int'):
        return [Poly.var(p.name), C(0), C(0)], 1
    if k in ('baseref', 'intref'):
        return [Poly.var('%s[0]' % rn), C(0), C(0)], 1
    if k == 'string':
        return [Poly.var('FromString(%s)' % rn), C(0), C(0)], 1
    raise Incomplete('operand kind ' + k)


def ring_spec(op, ps, regname):
    """expected components of result"""
    T = {p.name: p for p in ps}
    if op in ('neg', 'square'):
        A, dA = comps(T['a'], regname)
        if op == 'neg':
            return [(-x).modp() for x in A]
        return [x.modp() for x in mulspec(A, A)]
    A, dA = comps(T['a'], regname)
    B, dB = comps(T['b'], regname)
    if op == 'add':
        return [(x + y).modp() for x, y in zip(A, B)]
    if op == 'sub':
        return [(x - y).modp() for x, y in zip(A, B)]
    if op in ('mul', 'mulScalar'):
        if dA == 1:
            return [(A[0] * y).modp() for y in B]
        if dB == 1:
            return [(x * B[0]).modp() for x in A]
        return [x.modp() for x in mulspec(A, B)]
    raise Incomplete('op ' + op)


def alias_hyps(ps):
    ext = [p.name for p in ps if kind(p) == 'ext']
    out = [None]
    if 'result' in ext:
        for x in ext:
            if x != 'result':
                out.append({x: 'result'})
        others = [x for x in ext if x != 'result']
        if len(others) == 2:
            out.append({others[1]: others[0]})
            out.append({others[0]: 'result', others[1]: 'result'})
    return out


def fromstring_summary(ctx):
    def f(I, args, ins):
        # Goldilocks::fromString(std::string const&, int radix) -> Element : the residue of the integer the string denotes in
        # that radix, opaque here (C15); the decimal reading is the one mulScalar promises
        p = args[0]
        radix = args[1] if len(args) > 1 else 10
        if radix == 10:
            return FV(Poly.var('FromString(%s)' % p.reg.name), 'u64')
        return FV(Poly.var('FromString_radix_%s(%s)' % (radix, p.reg.name)), 'u64')
    return f


def string_scalar_summaries(mod):
    """a decimal string turned into a field element through GMP directly (mpz_class(str[, base]) + fromScalar): the element is
    the decimal reading only if the string is parsed in base 10 (gmpxx's default base 0 auto-detects 0x / 0 / 0b prefixes)"""
    S = {}
    store = {}

    def c_str(I, args, ins):
        return args[0]

    def init_set_str(I, args, ins):
        rop, sp, base = args[0], args[1], args[2]
        if not isinstance(sp, Ptr):
            raise Incomplete('mpz initialised from a string that is not a parameter')
        store[(rop.reg, rop.off)] = (sp.reg.name, base)
        return 0

    def from_scalar(I, args, ins):
        z = args[-1]
        ent = store.get((z.reg, z.off)) if isinstance(z, Ptr) else None
        if ent is None:
            raise Incomplete('fromScalar of an integer that does not come from the string operand')
        rn, base = ent
        v = FV(Poly.var('FromString(%s)' % rn if base == 10 else 'FromString_base_%s(%s)' % (base, rn)), 'u64')
        if len(args) == 2 and isinstance(args[0], Ptr):
            I.store_cell(args[0], v, 8)
            return None
        return v
    for pat, fn in ((r'^std::__cxx11::basic_string<char.*>::c_str\(\) const$', c_str), (r'^std::__cxx11::basic_string<char.*>::data\(\) const$', c_str),
                    (r'^Goldilocks::fromScalar\(', from_scalar)):
        for n in mod.find_re(pat):
            S[n] = fn
    for mangled in ('_ZNKSt7__cxx1112basic_stringIcSt11char_traitsIcESaIcEE5c_strEv', '_ZNKSt7__cxx1112basic_stringIcSt11char_traitsIcESaIcEE4dataEv'):
        S[mangled] = c_str
    S['__gmpz_init_set_str'] = init_set_str
    S['__gmpz_set_str'] = init_set_str
    S['__gmpz_clear'] = lambda I, a, i: None
    S['__gmpz_init'] = lambda I, a, i: None
    return S


def check_ring(rep, mod, cfg, name):
    dem = mod.dem[name]
    op = re.match(r'Goldilocks3::(\w+)\(', dem).group(1)
    site = site_of(mod, name)
    ps0 = harness.describe(mod, name)
    for al in alias_hyps(ps0):
        tag = '%s/%s%s' % (cfg, dem, '' if not al else ' alias=' + ','.join('%s=%s' % kv for kv in sorted(al.items())))
        ctx = contracts.Ctx()
        summ, _ = contracts.wrapper_summaries(mod, ctx)
        for fs in mod.find_re(r'^Goldilocks::fromString\('):
            if mod.dem[fs].startswith('Goldilocks::fromString(Goldilocks::Element&'):
                def fs_void(I, args, ins, h=fromstring_summary(ctx)):
                    I.store_cell(args[0], h(I, args[1:], ins), 8)
                    return None
                summ[fs] = fs_void
            else:
                summ[fs] = fromstring_summary(ctx)
        if any(kind(p) == 'string' for p in ps0):
            summ.update(string_scalar_summaries(mod))
        ext = {p.name: 24 for p in ps0 if kind(p) == 'ext'}
        elem = {p.name: 'int' for p in ps0 if kind(p) == 'intref'}
        elem.update({p.name: 'any' for p in ps0 if kind(p) == 'string'})
        from ..wrapcheck import explore_paths
        try:
            paths = list(explore_paths(mod, name, summ, ctx, ps0, alias=al, extents=ext, elem=elem))
        except (Incomplete, IRError) as e:
            if 'raw' in str(e) and 'field data' in str(e):
                # the routine does its own 64-bit arithmetic on representations: decide it in kernel mode instead
                kernel_fallback(rep, cfg, name, op, ps0, al, tag, site)
            else:
                rep.incomplete('value:' + tag, 'ext-value', site, str(e))
            continue
        except Sink as e:
            rep.refute('safety:' + tag, 'ext-safety', sink_site(e, site), str(e))
            continue
        for dec, eff, values, atom_subst in paths:
            ptag = tag + ('' if not dec else ' path[%s]' % ','.join('(%s)%s0' % (v[1], '==' if v[0] else '!=') for k, v in sorted(dec.items(), key=str) if k[0] == 'res'))
            regname = lambda p: p.region.name if p.region is not None else p.name
            try:
                if op == 'div':
                    T = {p.name: p for p in eff.params}
                    A, _ = comps(T['a'], regname)
                    inv = Poly.var('Inv(%s)' % Poly.var('b'))
                    exp = [(x * inv).modp() for x in A]
                else:
                    exp = ring_spec(op, eff.params, regname)
            except Incomplete as e:
                rep.incomplete('value:' + ptag, 'ext-value', site, str(e))
                continue
            if atom_subst:
                exp = [x.subst(atom_subst).modp() for x in exp]
            rn = [p for p in eff.params if p.name == 'result'][0].region.name
            bad = []
            for j in range(3):
                v = eff.writes.get((rn, 8 * j))
                v = FV.const(v) if isinstance(v, int) else v
                if v is None:
                    bad.append('component %d not written' % j)
                    continue
                nf = v.nf.subst(atom_subst).modp() if atom_subst and (v.nf.vars() & set(atom_subst)) else v.nf
                if nf != exp[j]:
                    bad.append('component %d is %s, exact result %s' % (j, str(nf)[:140], str(exp[j])[:140]))
            stray = [k for k in eff.writes if not (k[0] == rn and k[1] in (0, 8, 16))]
            if stray:
                bad.append('writes outside result: %s' % stray[:3])
            if bad:
                rep.refute('value:' + ptag, 'ext-value', site, '; '.join(bad))
            else:
                rep.ok('value:' + ptag, 'ext-value', site, '%s = exact result in F_p[x]/(x^3-x-1)' % op)
                if not al and not dec:
                    rep.sample(dict(function=dem, site=site, component0=str(exp[0])[:200]))
            if ctx.violations:
                v = ctx.violations[0]
                rep.refute('pre:' + ptag, 'callsite-precondition', site, '%s operand %s: %s' % (v['callee'], v['operand'], v['detail']))


def kernel_fallback(rep, cfg, name, op, ps, al, tag, site):
    """linear ring operations written with raw integer arithmetic: exact integer analysis for all 64-bit representations"""
    from .. import kprove, kcheck
    smod = front.module(cfg, sroa=True)
    if op not in ('neg', 'add', 'sub', 'mul', 'square') or any(kind(p) != 'ext' for p in ps):
        rep.incomplete('value:' + tag, 'ext-value', site, 'raw integer arithmetic on representations in a routine the kernel-mode fallback does not cover')
        return
    names = [p.name for p in ps]
    idx = {n: i for i, n in enumerate(names)}
    alias = {idx[k]: idx[v] for k, v in (al or {}).items()}
    ins = []
    syms = {}
    for p in ps:
        if p.name == names[0]:
            continue
        i = idx[p.name]
        tgt = alias.get(i, i)
        for j in range(3):
            key = (tgt, j)
            if key not in syms:
                syms[key] = 'x%d_%d' % (tgt, j)
                ins.append((i, 8 * j, syms[key], 'u64'))
    # roles by position: (result, a[, b])
    opnames = [n_ for n_ in names if n_ != names[0]]
    if names[0] != 'result':
        idx['result'] = 0
    ia = alias.get(idx[opnames[0]], idx[opnames[0]])
    ib = alias.get(idx[opnames[1]], idx[opnames[1]]) if len(opnames) > 1 else None
    specs = []
    if op in ('mul', 'square'):
        def prod(A):
            X = [A[syms[(ia, j)]] for j in range(3)]
            Y = X if op == 'square' else [A[syms[(ib, j)]] for j in range(3)]
            return mulspec(X, Y)
        specs = [(lambda A, j=j: prod(A)[j]) for j in range(3)]
        r = kprove.prove_cells(smod, name, len(ps), ins, [(idx['result'], 8 * j) for j in range(3)], specs, alias=alias,
                               use_int_summaries=False, extra_summaries=kprove.scalar_summaries(smod), budget=20000)
        kcheck.record(rep, 'value:' + tag, 'ext-value-kernel', site, r,
                      '%s with raw integer arithmetic on representations (scalar add/sub/mul by contract): each component = exact result mod p for all 64-bit inputs' % op)
        return
    for j in range(3):
        if op == 'neg':
            specs.append(lambda A, j=j: -A[syms[(ia, j)]])
        elif op == 'add':
            specs.append(lambda A, j=j: A[syms[(ia, j)]] + A[syms[(ib, j)]])
        else:
            specs.append(lambda A, j=j: A[syms[(ia, j)]] - A[syms[(ib, j)]])
    r = kprove.prove_cells(smod, name, len(ps), ins, [(idx['result'], 8 * j) for j in range(3)], specs, alias=alias)
    kcheck.record(rep, 'value:' + tag, 'ext-value-kernel', site, r, '%s on raw representations: each component = exact result mod p for all 64-bit inputs' % op)


def strip_inv(nf, ctx):
    """nf = cof * Inv(t) -> (cof, t) or None"""
    cof = {}
    tn = None
    for k, c in nf.d.items():
        iv = [x for x, e in k if x.startswith('Inv(')]
        if len(iv) != 1:
            return None
        e = dict(k)[iv[0]]
        if e != 1:
            return None
        if tn is None:
            tn = iv[0]
        elif tn != iv[0]:
            return None
        cof[tuple(kv for kv in k if kv[0] != iv[0])] = c
    if tn is None:
        return None
    return Poly(cof), ctx.inv_args.get(tn)


def check_inv(rep, mod, cfg, name):
    dem = mod.dem[name]
    site = site_of(mod, name)
    for al in (None, {'a': 'result'}):
        tag = '%s/%s%s' % (cfg, dem, '' if not al else ' alias=a=result')
        ctx = contracts.Ctx()
        summ, _ = contracts.wrapper_summaries(mod, ctx)
        try:
            ps0 = harness.describe(mod, name)
            # every path over the residue tests the routine makes on its operand (a fast path for base-field elements, ...)
            paths = list(explore_paths(mod, name, summ, ctx, ps0, alias=al, extents={'result': 24, 'a': 24}))
        except (Incomplete, IRError) as e:
            rep.incomplete('inv:' + tag, 'ext-inverse', site, str(e))
            continue
        except Sink as e:
            rep.refute('safety:' + tag, 'ext-safety', sink_site(e, site), str(e))
            continue
        for dec, eff, values, atom_subst in paths:
            ptag = tag + ('' if not dec else ' path[%s]' % ','.join('(%s)%s0' % (v[1], '==' if v[0] else '!=') for k, v in sorted(dec.items(), key=str) if k[0] == 'res'))
            rn = [p for p in eff.params if p.name == 'result'][0].region.name
            an = [p for p in eff.params if p.name == 'a'][0].region.name
            sub = (lambda x: x.subst(atom_subst).modp()) if atom_subst else (lambda x: x)
            A = [sub(Poly.var('%s[%d]' % (an, j))) for j in range(3)]
            cofs = []
            ts = []
            bad = None
            for j in range(3):
                v = eff.writes.get((rn, 8 * j))
                v = FV.const(v) if isinstance(v, int) else v
                if v is None and rn == an:
                    v = FV(Poly.var('%s[%d]' % (an, j)), 'u64')       # in place and not written: it still holds the operand's component
                if v is None:
                    bad = 'result[%d] is not written on this path (it keeps whatever the output held before the call)' % j
                    break
                if not isinstance(v, FV):
                    bad = 'result[%d] is %r' % (j, v)
                    break
                nf = sub(v.nf)
                if not nf.d:
                    cofs.append(Poly())
                    ts.append(None)
                    continue
                r = strip_inv(nf, ctx)
                if r is None or r[1] is None:
                    bad = 'result[%d] = %s is not of the form cofactor * inv(t)' % (j, str(nf)[:100])
                    break
                cofs.append(r[0])
                ts.append(sub(r[1]))
            if bad is None:
                tt = [t for t in ts if t is not None]
                if not tt or any(t != tt[0] for t in tt):
                    bad = 'result is not of the form cofactor * inv(t) with one common t'
            if bad is not None:
                rep.refute('inv:' + ptag, 'ext-inverse', site, bad)
                continue
            t0 = [t for t in ts if t is not None][0]
            prod = [sub(x.modp()) for x in mulspec(A, cofs)]
            if prod[0] == t0 and prod[1] == Poly() and prod[2] == Poly():
                rep.ok('inv:' + ptag, 'ext-inverse', site, 'a * cofactors = (t,0,0) and result = cofactors * inv(t): a*inv(a) = 1 whenever t != 0')
                if not al and not dec:
                    rep.sample(dict(function=dem, site=site, t=str(t0)[:300]))
            else:
                rep.refute('inv:' + ptag, 'ext-inverse', site, 'a * cofactors = (%s, %s, %s), expected (t,0,0) with t = %s' % (
                    str(prod[0])[:100], str(prod[1])[:100], str(prod[2])[:100], str(t0)[:100]))


def explore_predicate(mod, name, summ_factory, setup):
    """all paths of a predicate routine over the truth values of its atomic residue tests"""
    leaves = []
    work = [{}]
    while work:
        asg = work.pop()
        ctx = contracts.Ctx()
        ctx.symbolic_canon = True
        summ = summ_factory(ctx)

        def decide(pred, a, b, asg=asg, ctx=ctx):
            d = (a - b) if isinstance(a, Poly) else (Poly.const(a) - b)
            vs = [v for v in d.vars() if v.startswith('canon{')]
            if pred not in ('eq', 'ne') or not vs:
                return None
            # canon(x) == canon(y)  <=>  x ≡ y ; both sides are canonical integers
            nf = Poly()
            for k, c in d.d.items():
                if len(k) == 1 and k[0][0] in ctx.canon and k[0][1] == 1 and c in (1, -1):
                    nf = nf + ctx.canon[k[0][0]] * c
                elif k == ():
                    nf = nf + c
                else:
                    return None
            nf = nf.modp()
            key = nf.key()
            neg = (-nf).modp().key()
            if key in asg:
                val = asg[key]
            elif neg in asg:
                val = asg[neg]
            else:
                raise NeedDecision(key)
            return val if pred == 'eq' else (not val)
        try:
            ret = setup(summ, {'decide': decide})
            leaves.append((asg, ret))
        except NeedDecision as nd:
            for v in (True, False):
                a2 = dict(asg)
                a2[nd.key] = v
                work.append(a2)
    return leaves


def check_isone(rep, mod, cfg):
    names = harness.family(mod, r'^Goldilocks3::isOne\(')
    for name in names:
        dem = mod.dem[name]
        site = site_of(mod, name)
        tag = '%s/%s' % (cfg, dem)

        def factory(ctx):
            s, _ = contracts.wrapper_summaries(mod, ctx)
            return s

        def setup(summ, opts):
            eff = harness.run_routine(mod, name, summ, opts=opts, extents={'result': 24})
            return eff.ret
        try:
            leaves = explore_predicate(mod, name, factory, setup)
        except (Incomplete, IRError) as e:
            rep.incomplete('isOne:' + tag, 'ext-predicate', site, str(e))
            continue
        r = [Poly.var('result[%d]' % j) for j in range(3)]
        want = {(r[0] - 1).modp().key(): 0, r[1].key(): 1, r[2].key(): 2}
        alt = {(-(r[0] - 1)).modp().key(): 0, (-r[1]).modp().key(): 1, (-r[2]).modp().key(): 2}
        bad = []
        for asg, ret in leaves:
            known = {}
            for k, v in asg.items():
                i = want.get(k, alt.get(k))
                if i is None:
                    bad.append('tests a residue condition that is not part of "== (1,0,0)": %s' % (k,))
                    continue
                known[i] = v
            # the path's answer must be the value of r0≡1 ∧ r1≡0 ∧ r2≡0 for every completion of the untested atoms
            vals = set()
            import itertools
            free = [i for i in range(3) if i not in known]
            for comb in itertools.product((True, False), repeat=len(free)):
                full = dict(known)
                full.update(dict(zip(free, comb)))
                vals.add(all(full[i] for i in range(3)))
            got = bool(ret & 1) if isinstance(ret, int) else None
            if got is None or vals != {got}:
                bad.append('path with %s returns %s' % (
                    ', '.join('%s=%s' % (['c0==1', 'c1==0', 'c2==0'][i], v) for i, v in sorted(known.items())) or 'no test', got))
        if bad:
            rep.refute('isOne:' + tag, 'ext-predicate', site, '; '.join(bad[:3]))
        else:
            rep.ok('isOne:' + tag, 'ext-predicate', site, '%d paths: true exactly when c0==1, c1==0, c2==0 (mod p)' % len(leaves))
            rep.sample(dict(function=dem, site=site, paths=len(leaves)))


# ---- batchInverse over opaque extension-field terms (Laurent monomials in src[i])
class XV:
    """component j of the extension-field element with Laurent-monomial normal form `mono` (tuple of (atom, exp))"""
    __slots__ = ('mono', 'j')

    def __init__(s, mono, j):
        s.mono = mono
        s.j = j

    def __repr__(s):
        return 'X%s.%d' % (s.mono, s.j)


def xmul(m1, m2):
    d = dict(m1)
    for a, e in m2:
        d[a] = d.get(a, 0) + e
    return tuple(sorted((a, e) for a, e in d.items() if e))


def ext_summaries(mod):
    def rd(I, p):
        vs = [I.load_cell(p.add(8 * j), 8) for j in range(3)]
        out = []
        for j, v in enumerate(vs):
            if isinstance(v, FV) and len(v.nf.d) == 1:
                (k, c), = v.nf.d.items()
                if c == 1 and len(k) == 1 and k[0][1] == 1:
                    m = re.match(r'(\w+)\[(\d+)\]$', k[0][0])
                    if m and int(m.group(2)) % 3 == j:
                        out.append((((m.group(1), int(m.group(2)) // 3), 1),))
                        continue
            if isinstance(v, XV) and v.j == j:
                out.append(v.mono)
                continue
            raise Incomplete('extension operand is not a whole element (component %d is %r)' % (j, v))
        if out[0] != out[1] or out[1] != out[2]:
            raise Incomplete('extension operand mixes components of different elements')
        return out[0]

    def wr(I, p, mono):
        for j in range(3):
            I.store_cell(p.add(8 * j), XV(mono, j), 8)

    def mul(I, args, ins):
        wr(I, args[0], xmul(rd(I, args[1]), rd(I, args[2])))

    def inv(I, args, ins):
        m = rd(I, args[1])
        wr(I, args[0], tuple((a, -e) for a, e in m))

    def copy(I, args, ins):
        wr(I, args[0], rd(I, args[1]))
    S = {}
    for n in mod.find_re(r'^Goldilocks3::mul\(Goldilocks::Element \(&\) \[3\], Goldilocks::Element \(&\) \[3\], Goldilocks::Element \(&\) \[3\]\)$'):
        S[n] = mul
    for n in mod.find_re(r'^Goldilocks3::inv\(Goldilocks::Element \(&\) \[3\], Goldilocks::Element \(&\) \[3\]\)$'):
        S[n] = inv
    for n in mod.find_re(r'^Goldilocks3::copy\(Goldilocks::Element \(&\) \[3\], Goldilocks::Element const \(&\) \[3\]\)$'):
        S[n] = copy
    return S


def check_batch_inverse(rep, mod, cfg, sizes, extra=()):
    names = harness.family(mod, r'^Goldilocks3::batchInverse\(')
    rep.floor('batchInverse[%s]' % cfg, len(names), 1)
    for name in names:
        dem = mod.dem[name]
        site = site_of(mod, name)
        S = ext_summaries(mod)
        if len(S) != 3:
            rep.incomplete('batchInverse:%s' % cfg, 'ext-batch-inverse', site, 'extension mul/inv/copy entry points not found')
            continue
        for n, inplace in [(k, False) for k in sizes] + [(k, True) for k in sizes[:16] + [k2 for k2 in sizes if k2 > 256]] + [(k, ip) for k in extra for ip in (False, True)]:
            tag = '%s/batchInverse size=%d%s' % (cfg, n, ' in place (res=src)' if inplace else '')
            try:
                eff = harness.run_routine(mod, name, S, values={'size': n}, extents={'res': 24 * n, 'src': 24 * n},
                                          alias={'src': 'res'} if inplace else None)
            except (Incomplete, IRError) as e:
                rep.incomplete('batchInverse:' + tag, 'ext-batch-inverse', site, str(e))
                continue
            except Sink as e:
                rep.refute('batchInverse:' + tag, 'ext-batch-inverse', sink_site(e, site), str(e))
                continue
            bad = []
            sn = 'res' if inplace else 'src'
            for i in range(n):
                for j in range(3):
                    v = eff.writes.get(('res', 8 * (3 * i + j)))
                    if not (isinstance(v, XV) and v.j == j and v.mono == (((sn, i), -1),)):
                        bad.append('res[%d] component %d is %r, expected src[%d]^-1' % (i, j, v, i))
            if len(eff.writes) != 3 * n:
                bad.append('%d cells written, expected %d' % (len(eff.writes), 3 * n))
            rd = {k for k in eff.reads if k[0] == sn}
            if not inplace and rd != {('src', 8 * k) for k in range(3 * n)}:
                bad.append('read set of src is not exactly its %d elements' % n)
            if bad:
                rep.refute('batchInverse:' + tag, 'ext-batch-inverse', site, '; '.join(bad[:3]))
            else:
                rep.ok('batchInverse:' + tag, 'ext-batch-inverse', site, 'res[i] = src[i]^-1 for all i < %d (field-level Laurent monomials)' % n)
        rep.sample(dict(function=dem, site=site, sizes=[sizes[0], sizes[-1]], rule='res[i] == src[i]^-1 as Laurent monomials over opaque extension elements'))


def run(rep, tier, seed):
    rep.rule_text = ('scalar Goldilocks3 add/sub/neg/mul/square/div/mulScalar are interpreted abstractly and fully expanded as polynomials mod p; '
                     'each result component must equal schoolbook arithmetic in F_p[x]/(x^3-x-1) (x^3 = x+1), also with result aliasing either '
                     'operand; inv: a*(cofactors) = (t,0,0) and result = cofactors*inv(t); isOne: all paths over its atomic residue tests; '
                     'batchInverse: element-wise inverse as Laurent monomials over opaque extension elements for every length in the bound')
    cfgs = ('avx2', 'avx512') if tier == 'thorough' else ('avx2',)
    for cfg in cfgs:
        mod = front.module(cfg)
        ring = [n_ for n_ in mod.find_re(r'^Goldilocks3::(add|sub|neg|mul|square|div|mulScalar)\(') if "'lambda'" not in mod.dem[n_] and '::operator()' not in mod.dem[n_]]
        rep.floor('ring operations[%s]' % cfg, len(ring), 17)
        for n in ring:
            check_ring(rep, mod, cfg, n)
        invs = harness.family(mod, r'^Goldilocks3::inv\(')
        rep.floor('inv[%s]' % cfg, len(invs), 2)
        for n in invs:
            check_inv(rep, mod, cfg, n)
        check_isone(rep, mod, cfg)
        sizes = (list(range(1, 33)) + [257, 1000]) if tier == 'quick' else list(range(1, 129)) + [200, 256, 257, 1000, 4097, 8191]
        # threshold-directed lengths: both sides of every integer constant the routine (and its local helpers) has that the
        # pinned tree did not (a block length, a chunk size); in place as well
        from .. import thresholds
        ths = thresholds.new_thresholds('batchinv', configs=(cfg,))
        xs, skipped = thresholds.batch_sizes(ths, tier)
        if ths:
            rep.note('threshold-directed lengths for batchInverse: new integer constants %s; lengths %s added (out of place and in place)' % (ths, xs))
        if skipped:
            rep.note('NOT DECIDED: constants %s are beyond the lengths this tier can explore' % skipped)
        check_batch_inverse(rep, mod, cfg, sizes, extra=xs)
    rep.assumptions += ['x^3 - x - 1 is irreducible over F_p, hence t = -N(a) != 0 for a != 0 (mathematical fact, not checked here)',
                        'batchInverse: products of non-zero extension elements are non-zero (field)',
                        'Goldilocks::inv is exact on non-zero residues (C10) and fromString yields the residue of the parsed integer (C15)']
    rep.trusted = ['clang 14 lowering', 'glv abstract interpreter', 'scalar field-op contracts (C01)']
    rep.cov['batch_inverse_lengths'] = '1..32' if tier == 'quick' else '1..128, 200, 256'
