"""C07: linear_hash is the rate-8 capacity-4 sponge for every input length (bounded-shape tier + structure)."""
import re
from .. import front, contracts, harness
from ..interp import Incomplete, Sink, Interp, Region, Ptr
from ..ir import IRError
from ..poly import Poly, FV, C
from ..wrapcheck import site_of, sink_site

LEVEL = 'proof'
SIG = 'PoseidonGoldilocks::%s(Goldilocks::Element*, Goldilocks::Element const*)'


def lane_map(i, which):
    blk, off = divmod(i, 4)
    return blk * 8 + which * 4 + off


class PermTable:
    """the permutation as an opaque, hash-consed function of its 12 input normal forms (its own correctness is C06)"""

    def __init__(s):
        s.ids = {}

    def perm(s, inp):
        k = tuple(x.key() for x in inp)
        i = s.ids.get(k)
        if i is None:
            i = len(s.ids)
            s.ids[k] = i
        return [Poly.var('Perm%d[%d]' % (i, j)) for j in range(12)]


def nf_of(v):
    if isinstance(v, FV):
        return v.nf
    if isinstance(v, int):
        return Poly.const(v % ((1 << 64) - (1 << 32) + 1))
    if isinstance(v, Poly):
        return v.modp()
    raise Incomplete('permutation input cell holds %r' % (v,))


def perm_summaries(mod, pt):
    if not isinstance(pt, PermTable):
        t = PermTable()
        if isinstance(pt, dict):
            pt['table'] = t
        pt = t

    def hfr(I, args, ins):
        st, inp = args
        x = [nf_of(I.load_cell(inp.add(8 * i), 8)) for i in range(12)]
        for j, v in enumerate(pt.perm(x)):
            I.store_cell(st.add(8 * j), FV(v, 'u64'), 8)

    def hfr512(I, args, ins):
        st, inp = args
        x = [nf_of(I.load_cell(inp.add(8 * i), 8)) for i in range(24)]
        outs = [pt.perm([x[lane_map(i, w)] for i in range(12)]) for w in (0, 1)]
        for w in (0, 1):
            for i in range(12):
                I.store_cell(st.add(8 * lane_map(i, w)), FV(outs[w][i], 'u64'), 8)
    S = {}
    for nm, f in (('hash_full_result_seq', hfr), ('hash_full_result', hfr), ('hash_full_result_avx512', hfr512)):
        try:
            S[mod.find(SIG % nm)] = f
        except KeyError:
            pass
    return S


def sponge(pt, xs):
    """the specification: rate 8, capacity 4, zero capacity first, zero padding, feed-forward of the first four outputs"""
    n = len(xs)
    if n <= 4:
        return list(xs) + [C(0)] * (4 - n)
    cap = [C(0)] * 4
    i = 0
    while i < n:
        blk = xs[i:i + 8]
        blk = blk + [C(0)] * (8 - len(blk))
        st = pt.perm(blk + cap)
        cap = st[:4]
        i += 8
    return cap


VARIANTS = (('linear_hash_seq', 1), ('linear_hash', 1), ('linear_hash_avx512', 2))


def run_lh(mod, variant, two, size, pt):
    S = perm_summaries(mod, pt)
    name = mod.find('PoseidonGoldilocks::%s(Goldilocks::Element*, Goldilocks::Element*, unsigned long)' % variant)
    eff = harness.run_routine(mod, name, S, values={'size': size},
                              extents={'input': 8 * size * two, 'output': 8 * 4 * two})
    return eff, name


def check_length(rep, mod, cfg, variant, two, size):
    pt = PermTable()
    tag = '%s/%s size=%d' % (cfg, variant, size)
    try:
        eff, name = run_lh(mod, variant, two, size, pt)
    except (Incomplete, IRError, KeyError) as e:
        rep.incomplete('sponge:' + tag, 'sponge-bounded', '', str(e))
        return
    except Sink as e:
        rep.refute('sponge:' + tag, 'sponge-bounded', sink_site(e, ''), str(e))
        return
    site = site_of(mod, name)
    atoms = lambda a, b: [Poly.var('input[%d]' % i) for i in range(a, b)]
    exp = sponge(pt, atoms(0, size)) + (sponge(pt, atoms(size, 2 * size)) if two == 2 else [])
    bad = []
    for i, e in enumerate(exp):
        g = eff.writes.get(('output', 8 * i))
        if g is None:
            bad.append('output[%d] not written' % i)
        elif nf_of(g) != e.modp():
            bad.append('output[%d] = %s, sponge gives %s' % (i, str(nf_of(g))[:80], str(e)[:80]))
    if len(eff.writes) != len(exp):
        bad.append('%d cells written, digest has %d' % (len(eff.writes), len(exp)))
    rd = {k for k in eff.reads if k[0] == 'input'}
    want = {('input', 8 * i) for i in range(size * two)}
    if rd != want:
        bad.append('reads %d input cells, declared length is %d (extra %s, missing %s)' % (
            len(rd), size * two, sorted(rd - want, key=str)[:3], sorted(want - rd, key=str)[:3]))
    if bad:
        rep.refute('sponge:' + tag, 'sponge-bounded', site, '; '.join(bad[:3]))
    else:
        rep.ok('sponge:' + tag, 'sponge-bounded', site, 'digest and read set equal the reference sponge (%d permutation calls)' % len(pt.ids))
    return


def _worker(args):
    from ..report import Report
    cfg, variant, two, sizes = args
    mod = front.module(cfg)
    r = Report('C07', 'quick')
    for size in sizes:
        check_length(r, mod, cfg, variant, two, size)
    return r.obl


def run(rep, tier, seed):
    rep.rule_text = ('linear_hash_seq / linear_hash / linear_hash_avx512 interpreted abstractly for each length in the bound with the permutation as an '
                     'opaque hash-consed function: digest cells must equal the reference sponge written in the checker (rate 8, capacity 4, zero '
                     'capacity first, zero padding, first four outputs fed back; <=4 elements passed through and zero padded), the input read set '
                     'must be exactly the declared length, all accesses stay inside state/input/output extents; universal in element values')
    import multiprocessing as mp, os
    N = 256 if tier == "quick" else 2048
    sizes = list(range(0, N + 1))
    nproc = min(16, os.cpu_count() or 4)
    jobs = []
    for cfg in ('avx2', 'avx512'):
        for variant, two in VARIANTS:
            if two == 2 and cfg != 'avx512':
                continue
            # interleave long and short lengths so that the chunks have similar cost
            for i in range(nproc):
                ch = sizes[i::nproc]
                if ch:
                    jobs.append((cfg, variant, two, ch))
    with mp.Pool(nproc) as pool:
        for obl in pool.map(_worker, jobs):
            rep.obl += obl
    for cfg in ('avx2', 'avx512'):
        rep.sample(dict(config=cfg, variants=[v for v, t in VARIANTS if t == 1 or cfg == 'avx512'], lengths='0..%d' % N))
    rep.floor('length x variant configurations', len(rep.obl), 5 * (N + 1))
    rep.cov['lengths'] = '0..%d (every residue mod 8, both sides of the <=4 threshold)' % N
    rep.cov['exhaustive'] = False
    rep.assumptions += ['bounded in the input length (0..%d); universal in element values and representations' % N,
                        'the permutation is treated as an opaque function (C06 decides it)']
    rep.trusted = ['clang 14 lowering', 'glv interpreter']
