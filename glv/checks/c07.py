"""C07: linear_hash is the rate-8 capacity-4 sponge for every input length (bounded-shape tier + structure)."""
import re
from .. import front, contracts, harness
from ..interp import Incomplete, Sink, Interp, Region, Ptr
from ..ir import IRError
from ..poly import Poly, FV, C
from ..wrapcheck import site_of, sink_site

LEVEL = 'proof'
SIG = 'PoseidonGoldilocks::%s(Goldilocks::Element*, Goldilocks::Element const*)'


def lane_map(i, which):
    blk, off = divmod(i, 4)
    return blk * 8 + which * 4 + off


class PermTable:
    """the permutation as an opaque, hash-consed function of its 12 input normal forms (its own correctness is C06)"""

    def __init__(s):
        s.ids = {}

    def perm(s, inp):
        k = tuple(x.key() for x in inp)
        i = s.ids.get(k)
        if i is None:
            i = len(s.ids)
            s.ids[k] = i
        return [Poly.var('Perm%d[%d]' % (i, j)) for j in range(12)]


def nf_of(v):
    if isinstance(v, FV):
        return v.nf
    if isinstance(v, int):
        return Poly.const(v % ((1 << 64) - (1 << 32) + 1))
    if isinstance(v, Poly):
        return v.modp()
    raise Incomplete('permutation input cell holds %r' % (v,))


def perm_summaries(mod, pt):
    if not isinstance(pt, PermTable):
        t = PermTable()
        if isinstance(pt, dict):
            pt['table'] = t
        pt = t

    def hfr(I, args, ins):
        st, inp = args
        x = [nf_of(I.load_cell(inp.add(8 * i), 8)) for i in range(12)]
        for j, v in enumerate(pt.perm(x)):
            I.store_cell(st.add(8 * j), FV(v, 'u64'), 8)

    def hfr512(I, args, ins):
        st, inp = args
        x = [nf_of(I.load_cell(inp.add(8 * i), 8)) for i in range(24)]
        outs = [pt.perm([x[lane_map(i, w)] for i in range(12)]) for w in (0, 1)]
        for w in (0, 1):
            for i in range(12):
                I.store_cell(st.add(8 * lane_map(i, w)), FV(outs[w][i], 'u64'), 8)
    S = {}
    for nm, f in (('hash_full_result_seq', hfr), ('hash_full_result', hfr), ('hash_full_result_avx512', hfr512)):
        try:
            S[mod.find(SIG % nm)] = f
        except KeyError:
            pass
    return S


def sponge(pt, xs):
    """the specification: rate 8, capacity 4, zero capacity first, zero padding, feed-forward of the first four outputs"""
    n = len(xs)
    if n <= 4:
        return list(xs) + [C(0)] * (4 - n)
    cap = [C(0)] * 4
    i = 0
    while i < n:
        blk = xs[i:i + 8]
        blk = blk + [C(0)] * (8 - len(blk))
        st = pt.perm(blk + cap)
        cap = st[:4]
        i += 8
    return cap


VARIANTS = (('linear_hash_seq', 1), ('linear_hash', 1), ('linear_hash_avx512', 2))


def run_lh(mod, variant, two, size, pt):
    S = perm_summaries(mod, pt)
    name = mod.find('PoseidonGoldilocks::%s(Goldilocks::Element*, Goldilocks::Element*, unsigned long)' % variant)
    from .. import rawhelper
    eff = harness.run_routine(mod, name, S, values={'size': size}, opts={'raw_helper': rawhelper.decide},
                              extents={'input': 8 * size * two, 'output': 8 * 4 * two})
    return eff, name


def check_length(rep, mod, cfg, variant, two, size):
    pt = PermTable()
    tag = '%s/%s size=%d' % (cfg, variant, size)
    try:
        eff, name = run_lh(mod, variant, two, size, pt)
    except (Incomplete, IRError, KeyError) as e:
        rep.incomplete('sponge:' + tag, 'sponge-bounded', '', str(e))
        return
    except Sink as e:
        rep.refute('sponge:' + tag, 'sponge-bounded', sink_site(e, ''), str(e))
        return
    site = site_of(mod, name)
    atoms = lambda a, b: [Poly.var('input[%d]' % i) for i in range(a, b)]
    exp = sponge(pt, atoms(0, size)) + (sponge(pt, atoms(size, 2 * size)) if two == 2 else [])
    bad = []
    for i, e in enumerate(exp):
        g = eff.writes.get(('output', 8 * i))
        if g is None:
            bad.append('output[%d] not written' % i)
        elif nf_of(g) != e.modp():
            bad.append('output[%d] = %s, sponge gives %s' % (i, str(nf_of(g))[:80], str(e)[:80]))
    if len(eff.writes) != len(exp):
        bad.append('%d cells written, digest has %d' % (len(eff.writes), len(exp)))
    rd = {k for k in eff.reads if k[0] == 'input'}
    want = {('input', 8 * i) for i in range(size * two)}
    if rd != want:
        bad.append('reads %d input cells, declared length is %d (extra %s, missing %s)' % (
            len(rd), size * two, sorted(rd - want, key=str)[:3], sorted(want - rd, key=str)[:3]))
    if not bad and harness.helper_refutation(eff):
        bad.append(harness.helper_refutation(eff))
    elif bad and harness.helper_refutation(eff):
        rep.incomplete('sponge:' + tag, 'sponge-bounded', site, 'a helper computing on raw representations could not be summarised (not multilinear) and the digest misses the sponge with its interpolant in place')
        return
    if bad:
        rep.refute('sponge:' + tag, 'sponge-bounded', site, '; '.join(bad[:3]))
    else:
        rep.ok('sponge:' + tag, 'sponge-bounded', site, 'digest and read set equal the reference sponge (%d permutation calls)' % len(pt.ids))
    return


def _worker(args):
    from ..report import Report
    cfg, variant, two, sizes = args
    mod = front.module(cfg)
    r = Report('C07', 'quick')
    for size in sizes:
        check_length(r, mod, cfg, variant, two, size)
    return r.obl


def run(rep, tier, seed):
    rep.rule_text = ('linear_hash_seq / linear_hash / linear_hash_avx512 interpreted abstractly for each length in the bound with the permutation as an '
                     'opaque hash-consed function: digest cells must equal the reference sponge written in the checker (rate 8, capacity 4, zero '
                     'capacity first, zero padding, first four outputs fed back; <=4 elements passed through and zero padded), the input read set '
                     'must be exactly the declared length, all accesses stay inside state/input/output extents; universal in element values')
    import multiprocessing as mp, os
    N = 256 if tier == "quick" else 2048
    sizes = list(range(0, N + 1))
    # a few long inputs, and lengths on both sides of every integer constant / narrow counter width the sponge code has
    # that the pinned tree did not (threshold-directed, glv/thresholds.py)
    from .. import thresholds
    ths = thresholds.new_thresholds('poseidon')
    tl, skipped = thresholds.sponge_lengths(ths, tier)
    sizes = sorted(set(sizes) | {1000, 2047, 2048, 2049, 2056, 4099} | set(tl))
    if ths:
        rep.note('threshold-directed lengths: new integer constants %s in the sponge / tree code; lengths added: %s' % (ths, tl[:40]))
    if skipped:
        rep.note('NOT DECIDED: constants %s are beyond the lengths this tier can explore' % skipped)
    nproc = min(16, os.cpu_count() or 4)
    jobs = []
    for cfg in ('avx2', 'avx512'):
        for variant, two in VARIANTS:
            if two == 2 and cfg != 'avx512':
                continue
            # interleave long and short lengths so that the chunks have similar cost
            for i in range(nproc):
                ch = sizes[i::nproc]
                if ch:
                    jobs.append((cfg, variant, two, ch))
    with mp.Pool(nproc) as pool:
        for obl in pool.map(_worker, jobs):
            rep.obl += obl
    for cfg in ('avx2', 'avx512'):
        rep.sample(dict(config=cfg, variants=[v for v, t in VARIANTS if t == 1 or cfg == 'avx512'], lengths='0..%d' % N))
    # all lengths: inductive argument on the loop (lengths <= 7 are fully covered by the bounded tier above)
    for cfg in ('avx2', 'avx512'):
        smod = front.module(cfg, sroa=True)
        for variant, two in VARIANTS:
            if two == 2 and cfg != 'avx512':
                continue
            inductive(rep, smod, cfg, variant, two)
    from .. import rules
    rules.rule_fpround(rep, r'^PoseidonGoldilocks::linear_hash')
    rep.floor('length x variant configurations', len([o for o in rep.obl if o['rule'] == 'sponge-bounded']), 5 * (N + 1))
    rep.floor('inductive cases established', len([o for o in rep.obl if o['rule'] == 'sponge-inductive' and o['status'] == 'discharged']), 15)   # 50 on the pinned tree; one recognised variant (10 cases) is enough for the tier not to be vacuous
    rep.cov['lengths'] = '0..%d (every residue mod 8, both sides of the <=4 threshold)' % N
    rep.cov['exhaustive'] = False
    rep.assumptions += ['bounded in the input length (0..%d); universal in element values and representations' % N,
                        'the permutation is treated as an opaque function (C06 decides it)']
    rep.trusted = ['clang 14 lowering', 'glv interpreter']


# ------------------------------------------------------------------------------------------------------------------
# all lengths: inductive argument on the absorb loop (one abstract iteration from a havocked state, per case of the
# predicates the code itself tests: first/later iteration x block length n = min(remaining, 8))
def _decider(assume):
    """comparisons between linear forms in the shape symbols D (elements already absorbed) and R (elements remaining)
    under the case assumptions (interval evaluation over the case's boxes)"""
    from ..poly import as_poly
    INF = float('inf')

    def decide(pred, a, b):
        d = as_poly(a) - as_poly(b)
        vs = d.vars()
        if not vs <= {'D', 'R'}:
            return None
        if any(len(m) != 1 or m[0][1] != 1 for m in d.d if m != ()):
            return None
        dl = dh = d.d.get((), 0)
        for x in vs:
            c = d.d.get(((x, 1),), 0)
            l, h = assume[x]
            if c > 0:
                dl += c * l
                dh += c * h
            else:
                dl += c * h
                dh += c * l
        for p, f in (('eq', lambda l, h: True if l == h == 0 else (False if l > 0 or h < 0 else None)),
                     ('ne', lambda l, h: False if l == h == 0 else (True if l > 0 or h < 0 else None)),
                     ('ult', lambda l, h: True if h < 0 else (False if l >= 0 else None)),
                     ('ule', lambda l, h: True if h <= 0 else (False if l > 0 else None)),
                     ('ugt', lambda l, h: True if l > 0 else (False if h <= 0 else None)),
                     ('uge', lambda l, h: True if l >= 0 else (False if h < 0 else None))):
            if p == pred:
                return f(dl, dh)
        return None
    return decide


def _unrecognised(rep, tag, site, why):
    """the all-lengths argument could not follow this loop shape: said as information; the claim for this variant then rests on
    the bounded tier alone.  (On the pinned tree all 50 cases are established: the floor below catches a harness that stopped working.)"""
    rep.note('all-lengths argument not established for %s (%s): %s - this variant is covered by the bounded tier only' % (tag, site, why))


def inductive(rep, mod, cfg, variant, two):
    from ..cfg import FnInfo
    from ..checks.c10 import loop_header
    from ..poly import as_poly
    INF = float('inf')
    name = mod.find('PoseidonGoldilocks::%s(Goldilocks::Element*, Goldilocks::Element*, unsigned long)' % variant)
    site = site_of(mod, name)
    fi = FnInfo(mod.fn(name))
    hdr = loop_header(fi)
    tagp = 'induct:%s/%s' % (cfg, variant)
    if hdr is None:
        _unrecognised(rep, tagp, site, 'the absorb loop was not found (expected exactly one loop)')
        return
    phis = [i for i in fi.fn.blocks[hdr] if i.op == 'phi']
    if len(phis) != 1:
        _unrecognised(rep, tagp, site, 'loop header carries %d variables, expected only `remaining`' % len(phis))
        return
    W = 12 * two
    D, R = Poly.var('D'), Poly.var('R')

    def fresh(assume, size):
        pt = PermTable()
        I = Interp(mod, perm_summaries(mod, pt), {'decide': _decider(assume)})
        rin = Region('input', 'param', extent=None, elem='field')
        rout = Region('output', 'param', extent=8 * 4 * two, elem='field')
        ps = [p for t, p in fi.fn.params]
        env = {ps[0]: Ptr(rout, 0), ps[1]: Ptr(rin, 0), ps[2]: size}
        return pt, I, rin, rout, env

    def state_region(I, env):
        regs = {id(v.reg): v.reg for v in env.values() if isinstance(v, Ptr) and v.reg.kind == 'alloca' and v.reg.extent == 8 * W}
        return list(regs.values())[0] if len(regs) == 1 else None

    def lane(i, w):
        return i if two == 1 else lane_map(i, w)

    def cval(x):
        x = as_poly(x)
        return x.cval() if x.isconst() else x

    # what the loop-carried variable counts is read off its initial value: `size` = elements remaining (counts down),
    # 0 = elements absorbed (counts up); anything else is a loop shape this argument does not know
    try:
        pt, I, rin, rout, env0 = fresh(dict(D=(0, 0), R=(5, INF)), R)
        kind, prev, env1 = I.run_fragment(name, env0, fi.fn.order[0], stop_at=hdr)
        if kind != 'stop':
            raise Incomplete('the loop is not reached for size > 4')
        init = None
        for v, l in phis[0].a:
            if l == prev:
                init = as_poly(I.val(env1, v, phis[0].ty))
        if init == R:
            mode = 'down'
        elif init is not None and init.isconst() and init.cval() == 0:
            mode = 'up'
        else:
            raise Incomplete('the loop variable starts at %s: neither the remaining nor the absorbed element count' % (init,))
    except (Incomplete, IRError, KeyError, Sink) as e:
        _unrecognised(rep, tagp, site, str(e))
        return
    cases = []
    # (label, boxes, D value, R value, n, first)
    cases.append(('first n=8', dict(D=(0, 0), R=(8, INF)), 0, R, 8, True))
    cases.append(('later n=8', dict(D=(8, INF), R=(8, INF)), D, R, 8, False))
    for r in range(1, 8):
        cases.append(('later n=%d' % r, dict(D=(8, INF), R=(r, r)), D, r, r, False))
    ok_all = True
    for label, assume, Dval, Rval, n, first in cases:
        tag = '%s %s' % (tagp, label)
        try:
            S = cval(as_poly(Dval) + as_poly(Rval))
            pt, I, rin, rout, env0 = fresh(assume, S)
            kind, prev, env1 = I.run_fragment(name, env0, fi.fn.order[0], stop_at=hdr)
            if kind != 'stop':
                raise Incomplete('the loop is not reached for size > 4')
            st = state_region(I, env1)
            if st is None:
                raise Incomplete('the %d-element state array was not identified' % W)
            env2 = dict(env1)
            xval = Rval if mode == 'down' else Dval
            env2[phis[0].dst] = xval
            old = []
            if not first:
                for i in range(W):
                    a = FV.atom('st[%d]' % i)
                    I.mem[(st, 8 * i)] = (a, 8)
                    old.append(a.nf)
            # first iteration: the state is whatever the code before the loop established (nothing is assumed)
            I.reads = []
            I.writes = []
            kind, prev2, env3 = I.run_fragment(name, env2, hdr, skip_phis=True, stop_at=hdr)
            if kind != 'stop':
                raise Incomplete('the loop body does not come back to the loop head')
            nxt = None
            for v, l in phis[0].a:
                if l == prev2:
                    nxt = I.val(env3, v, phis[0].ty)
            probs = []
            if as_poly(nxt) != as_poly(xval) + (-n if mode == 'down' else n):
                probs.append("loop variable' = %s, expected %s %s %d" % (nxt, xval, '-' if mode == 'down' else '+', n))
            off = as_poly(Dval)
            S = as_poly(S)
            # expected permutation inputs
            for w in range(two):
                base = off + (S if w == 1 else 0)
                blk = [Poly.var('input[%s]' % (base + i)) for i in range(n)] + [C(0)] * (8 - n)
                cap = [C(0)] * 4 if first else [old[lane(i, w)] for i in range(4)]
                want_in = tuple(x.modp().key() for x in blk + cap)
                ids = [k for k, v in pt.ids.items() if k == want_in]
                if not ids:
                    probs.append('the permutation is not applied to input[off..off+%d) ++ 0^%d ++ %s (state %d)' % (n, 8 - n, 'zero capacity' if first else 'previous outputs 0..3', w))
                    continue
                pid = pt.ids[want_in]
                for i in range(12):
                    g = I.mem.get((st, 8 * lane(i, w)))
                    if g is None or nf_of(g[0]) != Poly.var('Perm%d[%d]' % (pid, i)):
                        probs.append('state[%d] after the iteration is not element %d of that permutation' % (lane(i, w), i))
                        break
            rd = {(r.name, o) for r, o, sz in I.reads if r is rin}
            want_rd = set()
            for w in range(two):
                base = off + (S if w == 1 else 0)
                for i in range(n):
                    k = (base + i) * 8
                    want_rd.add(('input', k.cval() if k.isconst() else k))
            if rd != want_rd:
                probs.append('input cells read in this iteration are not exactly [off, off+%d) of each sequence' % n)
            if any(r is rout for r, o, sz in I.writes):
                probs.append('output is written inside the loop')
            if probs:
                ok_all = False
                rep.refute(tag, 'sponge-inductive', site, '; '.join(probs[:3]))
            else:
                rep.ok(tag, 'sponge-inductive', site, "state' = Perm(input[off,off+%d) ++ 0^%d ++ %s), remaining' = remaining - %d, reads exactly those %d cells (off = size - remaining symbolic)" % (
                    n, 8 - n, 'zero capacity' if first else 'state[0..4)', n, n * two))
        except (Incomplete, IRError, KeyError) as e:
            ok_all = False
            _unrecognised(rep, tag, site, str(e))
        except Sink as e:
            ok_all = False
            rep.refute(tag, 'sponge-inductive', sink_site(e, site), str(e))
    # exit: remaining = 0
    tag = tagp + ' exit'
    try:
        assume = dict(D=(5, INF), R=(0, 0))
        pt, I, rin, rout, env0 = fresh(assume, D)
        kind, prev, env1 = I.run_fragment(name, env0, fi.fn.order[0], stop_at=hdr)
        st = state_region(I, env1)
        if kind != 'stop' or st is None:
            raise Incomplete('the loop head / the %d-element state array was not identified' % W)
        env2 = dict(env1)
        env2[phis[0].dst] = 0 if mode == 'down' else D
        for i in range(W):
            I.mem[(st, 8 * i)] = (FV.atom('st[%d]' % i), 8)
        I.reads = []
        I.writes = []
        kind, rv, env3 = I.run_fragment(name, env2, hdr, skip_phis=True)
        bad = []
        for w in range(two):
            for j in range(4):
                g = I.mem.get((rout, 8 * (4 * w + j)))
                if g is None or nf_of(g[0]) != Poly.var('st[%d]' % lane(j, w)):
                    bad.append('output[%d] is not state element %d' % (4 * w + j, lane(j, w)))
        if any(r is rin for r, o, sz in I.reads):
            bad.append('input is read after the last block')
        (rep.refute if bad else rep.ok)(tag, 'sponge-inductive', site, '; '.join(bad[:3]) if bad else
                                        'when remaining = 0 the digest is state[0..4) (per sequence) and nothing else is read')
    except (Incomplete, IRError, KeyError) as e:
        _unrecognised(rep, tag, site, str(e))
    except Sink as e:
        rep.refute(tag, 'sponge-inductive', sink_site(e, site), str(e))
