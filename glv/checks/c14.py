"""C14: AVX512 dot / sparse / dense matrix kernels equal the product mod p for both interleaved states."""
from .. import matcheck, kcheck

LEVEL = 'proof'
PAT = r'^Goldilocks::(spmv_avx512_4x12|mmult_avx512|dot_avx512)(_4x12)?(_a|_8)?\('


def run(rep, tier, seed):
    rep.rule_text = ('each AVX512 dot/spmv/mmult kernel is interpreted abstractly on two interleaved symbolic states; every result lane must '
                     'have the normal form of the matrix product of its own state (independence of the two states included); and every '
                     'lane-kernel call site must present operands whose representation typestate satisfies the callee contract '
                     '(canonical-operand adders may not receive products or sums, which are arbitrary 64-bit representations)')
    matcheck.run_family(rep, 'avx512', PAT, 7, 'C14')
    n = kcheck.prove_field_contracts(rep, 'avx512', 8, seed=seed)     # the lane kernels the matrix kernels are built from, incl. the 8-bit sparse kernel
    rep.floor('lane kernels proved (kernel mode)', n, 14)
    rep.trusted = ['clang 14 lowering', 'glv abstract interpreter', 'lane-kernel contracts (proved by C11 kernel mode)']
