"""C01: scalar field operations are exact mod p on every 64-bit representation, under every aliasing pattern."""
import re
from .. import front, contracts, kprove, kcheck, harness, x86
from ..interp import Incomplete, Sink
from ..ir import IRError
from ..poly import Poly, FV, C, P
from ..wrapcheck import site_of, sink_site

LEVEL = 'proof'
KSPEC = {'add': lambda A: A[0] + A[1], 'sub': lambda A: A[0] - A[1], 'mul': lambda A: A[0] * A[1], 'square': lambda A: A[0] * A[0],
         'neg': lambda A: -A[0], 'id': lambda A: A[0]}
E = 'Goldilocks::Element'
PRIMS = [('add', lambda A: A[0] + A[1]), ('sub', lambda A: A[0] - A[1]), ('mul', lambda A: A[0] * A[1])]
# derived API: demangled signature -> (spec over operand atoms, description)
DERIVED = [
    ('Goldilocks::add(%s const&, %s const&)' % (E, E), 'add'), ('Goldilocks::sub(%s const&, %s const&)' % (E, E), 'sub'),
    ('Goldilocks::mul(%s const&, %s const&)' % (E, E), 'mul'),
    ('Goldilocks::square(%s const&)' % E, 'square'), ('Goldilocks::square(%s&, %s const&)' % (E, E), 'square'),
    ('Goldilocks::neg(%s const&)' % E, 'neg'), ('Goldilocks::neg(%s&, %s const&)' % (E, E), 'neg'),
    ('Goldilocks::mulScalar(%s const&, unsigned long const&)' % E, 'mulScalar'),
    ('Goldilocks::mulScalar(%s&, %s const&, unsigned long const&)' % (E, E), 'mulScalar'),
    ('operator+(%s const&, %s const&)' % (E, E), 'add'), ('operator-(%s const&, %s const&)' % (E, E), 'sub'),
    ('operator*(%s const&, %s const&)' % (E, E), 'mul'), ('operator-(%s const&)' % E, 'neg'), ('operator+(%s const&)' % E, 'id'),
]


def asm_lint(rep, mod, cfg):
    """R-ASM: every hard register written by a template is an output or a clobber; an output written before the last read of a
    register input must be early-clobber; memory operands are constant globals; no input operand is written"""
    n = 0
    for name in mod.find_re(r'^Goldilocks::(add|sub|mul)\(Goldilocks::Element&, Goldilocks::Element const&, Goldilocks::Element const&\)'):
        fn = mod.fn(name)
        for lab, ins in fn.instrs():
            if ins.op == 'call' and ins.a[0][0] == 'asm':
                n += 1
                L = x86.lint(ins)
                f, l = mod.loc(ins.dbg)
                site = '%s:%s' % (front.rel(f), l) if f else site_of(mod, name)
                tag = 'asm:%s/%s' % (cfg, mod.dem[name].split('(')[0])
                bad = []
                extra = {r for r in L['written'] if not r.startswith('input-operand')} - {L['outreg']} - L['clobbers']
                if extra:
                    bad.append('registers %s are written but neither outputs nor clobbers' % sorted(extra))
                if [r for r in L['written'] if r.startswith('input-operand')]:
                    bad.append('an input operand is written')
                if L['needs_early'] and not L['early']:
                    bad.append('the output is written before the last read of an input but is not early-clobber (=&)')
                for a, t, cst in zip(ins.a[1:], ins.x['atys'], L['inputs']):
                    if 'm' in cst:
                        if a[0] != 'g' or not mod.has_glob(a[1]) or not mod.glob(a[1]).const:
                            bad.append('memory operand %s is not a constant global' % (a,))
                if 'flags' not in L['clobbers'] and 'cc' not in L['clobbers']:
                    bad.append('condition codes are modified but not clobbered')
                (rep.refute if bad else rep.ok)(tag, 'asm-contract', site, '; '.join(bad) if bad else
                                                'writes %s; output %s%s; clobbers %s; memory operands constant' % (
                                                    sorted(L['written']), L['outreg'], ' (early-clobber)' if L['early'] else '', sorted(L['clobbers'])))
    rep.floor('inline asm statements[%s]' % cfg, n, 3)


def run(rep, tier, seed):
    rep.rule_text = ('kernel mode on the inline-asm templates of add/sub/mul (x86 subset semantics: xor-zero, mov, add, sub, adc, cmovc, jnc, mul, rol $32) '
                     'and on inc/dec: for all 64-bit representations the output is a representation of a o b mod p, for every aliasing pattern '
                     '(none, result=in1, result=in2, in1=in2, all equal); R-ASM lint of each template; the derived API (square, neg, mulScalar, '
                     'value-returning overloads, operators) is interpreted in wrapper mode against the ring operation')
    cfg = 'avx2'
    mod = front.module(cfg, sroa=True)
    U = [('a', 'u64', 0), ('b', 'u64', 0)]
    for op, sp in PRIMS:
        try:
            name = mod.find('Goldilocks::%s(%s&, %s const&, %s const&)' % (op, E, E, E))
        except KeyError:
            rep.incomplete('prim:' + op, 'scalar-kernel', '', 'primitive not found')
            continue
        site = site_of(mod, name)
        pats = [('distinct', {}, {}), ('result=in1', {0: 0}, {}), ('result=in2', {1: 0}, {}), ('in1=in2', {}, {1: 0}), ('result=in1=in2', {0: 0}, {1: 0})]
        for pn, al, ali in pats:
            r = kprove.prove(mod, name, U, [('u64', 0)], sp, alias=al or None, alias_in=ali or None, seed=seed)
            ok = kcheck.record(rep, 'prim:%s %s' % (op, pn), 'scalar-kernel', site, r, '%s(result, in1, in2) [%s] = in1 %s in2 (mod p)' % (op, pn, op))
            if ok and pn == 'distinct':
                rep.sample(dict(function='Goldilocks::' + op, cells=r.cells, output='canonical' if r.max_out < P else 'any 64-bit representation'))
    for fn, sp, d in (('inc', lambda A: A[0] + 1, 'a+1'), ('dec', lambda A: A[0] - 1, 'a-1')):
        try:
            name = mod.find('Goldilocks::%s(%s const&)' % (fn, E))
        except KeyError:
            rep.incomplete('prim:' + fn, 'scalar-kernel', '', 'primitive not found')
            continue
        r = kprove.prove(mod, name, [('a', 'u64', 0)], [('u64', 0)], sp, ret_out=True, seed=seed)
        kcheck.record(rep, 'prim:' + fn, 'scalar-kernel', site_of(mod, name), r, '%s(a) = %s (mod p), all branches' % (fn, d))
    asm_lint(rep, mod, cfg)
    # derived API in wrapper mode (primitives by contract)
    wmod = front.module(cfg)
    nd = 0
    for sig, op in DERIVED:
        try:
            name = wmod.find(sig)
        except KeyError:
            rep.incomplete('derived:' + sig, 'scalar-derived', '', 'function not found')
            continue
        nd += 1
        site = site_of(wmod, name)
        ps = harness.describe(wmod, name)
        ext = [p for p in ps if p.irty[0] == 'p' and p.dty.startswith('E')]
        hyps = [None]
        outp = [p for p in ps if p.dty == 'E&']
        if outp:
            hyps += [{p.name: outp[0].name} for p in ps if p.dty == 'E const&']
        for al in hyps:
            tag = 'derived:%s%s' % (sig, '' if not al else ' alias=' + ','.join('%s=%s' % kv for kv in al.items()))
            ctx = contracts.Ctx()
            summ, _ = contracts.wrapper_summaries(wmod, ctx)
            summ.pop(name, None)        # the routine under analysis is interpreted (or decided in kernel mode), never summarised
            try:
                eff = harness.run_routine(wmod, name, summ, alias=al, elem={p.name: 'int' for p in ps if p.dty.startswith('ul')})
            except (Incomplete, IRError) as e:
                einp = [p for p in ps if p.dty == 'E const&']
                if 'outside a contracted kernel' in str(e) and op in KSPEC and len(einp) == len([p for p in ps if p.irty[0] == 'p']) - len(outp):
                    # the routine does raw integer arithmetic on representations: decide it on exact integers for all 64-bit inputs
                    ins_k = [('ab'[i], 'u64', 0) for i in range(len(einp))]
                    al_k = {i: 0 for i, p in enumerate(einp) if al and p.name in al} or None
                    r = kprove.prove(mod, mod.find(sig), ins_k, [('u64', 0)], KSPEC[op], alias=al_k, ret_out=not outp, seed=seed)
                    kcheck.record(rep, tag, 'scalar-derived-kernel', site, r, '%s on raw representations = exact result mod p for all 64-bit operands' % op)
                else:
                    rep.incomplete(tag, 'scalar-derived', site, str(e))
                continue
            except Sink as e:
                rep.refute(tag, 'scalar-derived', sink_site(e, site), str(e))
                continue
            ins = [p for p in eff.params if p.dty in ('E const&', 'ul const&')]
            A = [Poly.var('%s[0]' % p.region.name) for p in ins]
            want = {'add': lambda: A[0] + A[1], 'sub': lambda: A[0] - A[1], 'mul': lambda: A[0] * A[1], 'square': lambda: A[0] * A[0],
                    'neg': lambda: -A[0], 'id': lambda: A[0], 'mulScalar': lambda: A[0] * A[1]}[op]().modp()
            if outp:
                o = [p for p in eff.params if p.dty == 'E&'][0]
                got = eff.writes.get((o.region.name, 0))
            else:
                got = eff.ret
            got = FV.const(got) if isinstance(got, int) else got
            if isinstance(got, FV) and got.nf == want:
                rep.ok(tag, 'scalar-derived', site, '%s = %s' % (op, want))
            else:
                rep.refute(tag, 'scalar-derived', site, 'result %s, ring operation gives %s' % (got.nf if isinstance(got, FV) else got, want))
    rep.floor('derived scalar API', nd, len(DERIVED))
    rep.trusted = ['x86 semantics of 10 mnemonics as modelled in glv/x86.py', 'clang 14 lowering of the C++ around the asm', 'glv kernel-mode domain']
    rep.assumptions += ['USE_MONTGOMERY == 0 (as built); mul2 (divq variant) is not part of the property']
