"""C06: Poseidon permutation - scalar, AVX2 and AVX512 agree with the specified round structure on all states."""
import re
from .. import front, contracts, harness
from ..interp import Incomplete, Sink, Interp, Region, Ptr
from ..ir import IRError
from ..poly import Poly, FV, C, P, PPTable
from ..wrapcheck import site_of, sink_site

LEVEL = 'proof'
SIG = 'PoseidonGoldilocks::%s(Goldilocks::Element*, Goldilocks::Element const*)'
NS = 'PoseidonGoldilocksConstants::'


def lane_map(i, which):
    blk, off = divmod(i, 4)
    return blk * 8 + which * 4 + off


def read_table(I, mod, name, n):
    g = mod.find_glob(name) if hasattr(mod, 'find_glob') else None
    raise NotImplementedError


def glob_by_dem(mod, dem):
    import subprocess
    if not hasattr(mod, '_gdem'):
        names = [n for n in mod._globtxt]
        out = subprocess.run(['llvm-cxxfilt-14'], input='\n'.join(n[1:].strip('"') for n in names), capture_output=True, text=True).stdout.split('\n')
        mod._gdem = dict(zip(out, names))
    return mod._gdem.get(dem)


def table(I, mod, dem, n):
    g = glob_by_dem(mod, dem)
    if g is None:
        raise Incomplete('constant table %s not found' % dem)
    r = I.global_region(g)
    if r.extent != 8 * n:
        raise Incomplete('constant table %s has %d bytes, expected %d' % (dem, r.extent, 8 * n))
    out = []
    for i in range(n):
        v = I.mem[(r, 8 * i)][0]
        if not isinstance(v, int):
            raise Incomplete('table entry is not a constant')
        out.append(v)
    return out


def reference(ctx, inp, Ct, St, Mt, Pt):
    """the specified permutation: 4 full rounds, 22 partial rounds (optimised sparse form), 4 full rounds, S-box x^7,
    with the library's tables C (118), S (507), M, P (12x12, used as state' = state . mat)"""
    mul = ctx.mul

    def pow7(x):
        x2 = mul(x, x)
        x3 = mul(x, x2)
        x4 = mul(x2, x2)
        return mul(x3, x4)

    def mvp(st, mat):
        return [sum((st[j] * mat[j * 12 + i] for j in range(12)), C(0)).modp() for i in range(12)]
    st = [(x + Ct[i]).modp() for i, x in enumerate(inp)]
    census = []
    for r in range(3):
        st = [(pow7(x) + Ct[(r + 1) * 12 + i]).modp() for i, x in enumerate(st)]
        census.append(12)
        st = mvp(st, Mt)
    st = [(pow7(x) + Ct[4 * 12 + i]).modp() for i, x in enumerate(st)]
    census.append(12)
    st = mvp(st, Pt)
    for r in range(22):
        s0 = (pow7(st[0]) + Ct[5 * 12 + r]).modp()
        census.append(1)
        base = 23 * r
        new0 = (s0 * St[base] + sum((st[i] * St[base + i] for i in range(1, 12)), C(0))).modp()
        st = [new0] + [(st[i] + s0 * St[base + 11 + i]).modp() for i in range(1, 12)]
    for r in range(3):
        st = [(pow7(x) + Ct[5 * 12 + 22 + 12 * r + i]).modp() for i, x in enumerate(st)]
        census.append(12)
        st = mvp(st, Mt)
    st = [pow7(x) for x in st]
    census.append(12)
    st = mvp(st, Mt)
    return st, census


def run_perm(mod, ctx, fn, ncell, atoms, by_matrix_spec=False):
    summ, _ = contracts.wrapper_summaries(mod, ctx)
    if by_matrix_spec:
        # a matrix kernel whose body wrapper mode cannot follow (raw integer arithmetic on lane values) is replaced by its
        # matrix specification; that specification is discharged for every kernel by the family checks this property runs
        from .. import matcheck
        from . import c13, c14
        for pat in (c13.PAT, c14.PAT):
            for k_, v_ in matcheck.matrix_summaries(mod, pat).items():
                summ.setdefault(k_, v_)
    name = mod.find(SIG % fn)

    def pre(I, ps):
        reg = [p for p in ps if p.name == 'input' or p.irty[0] == 'p'][1].region
        for i, a in enumerate(atoms):
            I.mem[(reg, 8 * i)] = (FV.atom(a), 8)
    ps = harness.describe(mod, name)
    pn = [p.name for p in ps]
    eff = harness.run_routine(mod, name, summ, extents={pn[0]: 8 * ncell, pn[1]: 8 * ncell}, pre=pre)
    out = []
    for i in range(ncell):
        v = eff.writes.get((pn[0], 8 * i))
        if not isinstance(v, FV):
            raise Incomplete('%s: output cell %d is %r' % (fn, i, v))
        out.append(v.nf)
    stray = [k for k in eff.writes if k[0] != pn[0] or not (isinstance(k[1], int) and 0 <= k[1] < 8 * ncell)]
    return out, eff, stray, name


def check_cfg(rep, cfg, shared):
    mod = front.module(cfg)
    ctx = contracts.Ctx(pp=shared['pp'])
    site = lambda n: site_of(mod, n)
    atoms = ['x%d' % i for i in range(12)]
    I0 = Interp(mod, {})
    try:
        Ct = table(I0, mod, NS + 'C', 118)
        St = table(I0, mod, NS + 'S', 507)
        Mt = table(I0, mod, NS + 'M', 144)
        Pt = table(I0, mod, NS + 'P', 144)
        M_ = table(I0, mod, NS + 'M_', 144)
        P_ = table(I0, mod, NS + 'P_', 144)
    except (Incomplete, KeyError) as e:
        rep.incomplete('tables:' + cfg, 'poseidon-tables', 'src/poseidon_goldilocks_constants.hpp', str(e))
        return
    # R-CONST on the tables: canonical entries, 8-bit MDS entries, M_/P_ are the flattening the AVX kernels read
    bad = [(n, i) for n, t in (('C', Ct), ('S', St), ('M', Mt), ('P', Pt)) for i, v in enumerate(t) if v >= P]
    (rep.refute if bad else rep.ok)('tables-canonical:' + cfg, 'poseidon-tables', 'src/poseidon_goldilocks_constants.hpp',
                                    'entries >= p: %s' % bad[:5] if bad else '%d table entries, all < p' % (118 + 507 + 288))
    bad = [i for i, v in enumerate(M_) if v >= 256]
    (rep.refute if bad else rep.ok)('tables-M_-8bit:' + cfg, 'poseidon-tables', 'src/poseidon_goldilocks_constants.hpp',
                                    'M_ entries >= 2^8 at %s' % bad[:5] if bad else '144 entries of M_ are < 2^8 (precondition of mmult_*_8)')
    # mmult_avx reads coefficient M_[12r+k] for output r, input k; mvp_ uses mat[k][r]: M_ must be the transpose flattening
    for nm, flat, mat in (('M_', M_, Mt), ('P_', P_, Pt)):
        bad = [(r, k) for r in range(12) for k in range(12) if flat[12 * r + k] != mat[12 * k + r]]
        (rep.refute if bad else rep.ok)('tables-%s-layout:%s' % (nm, cfg), 'poseidon-tables', 'src/poseidon_goldilocks_constants.hpp',
                                        '%s[12r+k] != %s[k][r] at %s' % (nm, nm[0], bad[:4]) if bad else '%s[12r+k] == %s[k][r] for all 144 entries' % (nm, nm[0]))
    try:
        ref, census = reference(ctx, [Poly.var(a) for a in atoms], Ct, St, Mt, Pt)
    except Exception as e:
        rep.incomplete('reference:' + cfg, 'poseidon-spec', '', str(e))
        return
    ok_census = census.count(12) == 8 and census.count(1) == 22
    impls = [('hash_full_result_seq', 12), ('hash_full_result', 12)]
    if cfg == 'avx512':
        impls.append(('hash_full_result_avx512', 24))
    results = {}
    for fn, nc in impls:
        try:
            if nc == 12:
                try:
                    out, eff, stray, name = run_perm(mod, ctx, fn, 12, atoms)
                except Incomplete as e0:
                    if 'outside a contracted kernel' not in str(e0):
                        raise
                    ctx.violations.clear()
                    out, eff, stray, name = run_perm(mod, ctx, fn, 12, atoms, by_matrix_spec=True)
                results[fn] = out
                states = [out]
            else:
                at = [None] * 24
                for w in (0, 1):
                    for i in range(12):
                        at[lane_map(i, w)] = ('x%d' % i) if w == 0 else ('y%d' % i)
                try:
                    out, eff, stray, name = run_perm(mod, ctx, fn, 24, at)
                except Incomplete as e0:
                    if 'outside a contracted kernel' not in str(e0):
                        raise
                    ctx.violations.clear()
                    out, eff, stray, name = run_perm(mod, ctx, fn, 24, at, by_matrix_spec=True)
                sa = [out[lane_map(i, 0)] for i in range(12)]
                sb = [out[lane_map(i, 1)].subst({'y%d' % i: Poly.var('x%d' % i) for i in range(12)}) if False else out[lane_map(i, 1)] for i in range(12)]
                states = [sa, sb]
        except (Incomplete, IRError, KeyError) as e:
            rep.incomplete('perm:%s/%s' % (cfg, fn), 'poseidon-agreement', '', str(e))
            continue
        except Sink as e:
            rep.refute('safety:%s/%s' % (cfg, fn), 'poseidon-safety', sink_site(e, ''), str(e))
            continue
        st = site(name)
        if nc == 12:
            diff = [i for i in range(12) if out[i] != ref[i]]
            if diff:
                rep.refute('perm:%s/%s' % (cfg, fn), 'poseidon-agreement', st,
                           'output elements %s differ from the specified permutation (4+22+4 rounds, x^7, library tables)' % diff)
            else:
                rep.ok('perm:%s/%s' % (cfg, fn), 'poseidon-agreement', st, '12 output normal forms equal the specified permutation')
        else:
            # state A is over atoms x*, state B over atoms y*: compare B with the reference over y*
            refB, _ = reference(ctx, [Poly.var('y%d' % i) for i in range(12)], Ct, St, Mt, Pt)
            for w, (got, want) in enumerate(((states[0], ref), (states[1], refB))):
                diff = [i for i in range(12) if got[i] != want[i]]
                if diff:
                    rep.refute('perm:%s/%s state %d' % (cfg, fn, w), 'poseidon-agreement', st,
                               'interleaved state %d: output elements %s differ from the specified permutation of that state' % (w, diff))
                else:
                    rep.ok('perm:%s/%s state %d' % (cfg, fn, w), 'poseidon-agreement', st,
                           'interleaved state %d equals the specified permutation of its own 12 inputs (independent of the other state)' % w)
        if stray:
            rep.refute('writes:%s/%s' % (cfg, fn), 'poseidon-footprint', st, 'writes outside the %d-element state: %s' % (nc, stray[:3]))
        else:
            rep.ok('writes:%s/%s' % (cfg, fn), 'poseidon-footprint', st, 'writes exactly the %d-element state' % nc)
        if ctx.violations:
            seen = {}
            for v in ctx.violations:
                seen.setdefault((v['callee'], v['operand'], v['detail'], tuple(v['loc'][:1])), []).append(v['lane'])
            for (callee, opnd, detail, loc), lanes in list(seen.items())[:10]:
                l = loc[0] if loc else (None, None)
                rep.refute('pre:%s/%s:%s:%s:%s' % (cfg, fn, callee.split('(')[0], opnd, l[1]), 'callsite-precondition',
                           '%s:%s' % (front.rel(l[0]), l[1]), 'call of %s: operand %s has %s' % (callee.split('(')[0], opnd, detail))
            ctx.violations.clear()
        else:
            rep.ok('pre:%s/%s' % (cfg, fn), 'callsite-precondition', st,
                   'all %d lane-kernel call sites receive operands within their contracts (round constants small/canonical, M_ < 2^8)' % len(ctx.sites))
    (rep.ok if ok_census else rep.refute)('census:' + cfg, 'poseidon-spec', 'glv/checks/c06.py',
                                          'S-box layers: %d full (12 boxes), %d partial (1 box), exponent 7' % (census.count(12), census.count(1)))
    # capacity-sized hash = first four elements of the full result
    from .c07 import perm_summaries
    for fn, nin, nout in (('hash_seq', 12, 4), ('hash', 12, 4)) + ((('hash_avx512', 24, 8),) if cfg == 'avx512' else ()):
        names = harness.family(mod, r'^PoseidonGoldilocks::%s\(' % fn)
        if len(names) != 1:
            rep.incomplete('hash:%s/%s' % (cfg, fn), 'poseidon-capacity', '', 'entry point not found')
            continue
        pt = {}
        S = perm_summaries(mod, pt)
        try:
            eff = harness.run_routine(mod, names[0], S, extents={'state': 8 * nout, 'input': 8 * nin})
        except (Incomplete, IRError, Sink) as e:
            rep.incomplete('hash:%s/%s' % (cfg, fn), 'poseidon-capacity', site(names[0]), str(e))
            continue
        want = {}
        if nin == 12:
            for j in range(4):
                want[('state', 8 * j)] = 'Perm0[%d]' % j
        else:
            # interleaved: first 8 cells of the 24-cell result = elements 0..3 of state A then of state B
            for w in (0, 1):
                for j in range(4):
                    want[('state', 8 * (4 * w + j))] = 'Perm%d[%d]' % (w, j)
        got = {k: (str(v.nf) if isinstance(v, FV) else repr(v)) for k, v in eff.writes.items()}
        if got == want:
            rep.ok('hash:%s/%s' % (cfg, fn), 'poseidon-capacity', site(names[0]), 'returns exactly elements 0..3 of the full result')
        else:
            rep.refute('hash:%s/%s' % (cfg, fn), 'poseidon-capacity', site(names[0]), 'got %s' % sorted(got.items(), key=str)[:4])
    rep.sample(dict(config=cfg, implementations=[f for f, _ in impls], out0_terms=len(ref[0].d), power_products=len(shared['pp'].pps),
                    linear_forms=len(shared['pp'].fk)))


def run(rep, tier, seed):
    rep.rule_text = ('hash_full_result_seq / hash_full_result / hash_full_result_avx512 are interpreted abstractly on symbolic states (S-box outputs as '
                     'AC-normalised x^7 power products of hash-consed linear forms, everything between S-box layers a linear form with the table '
                     'coefficients): all outputs must equal the specified permutation written in the checker (4 full + 22 partial + 4 full rounds, '
                     'library tables C,S,M,P) - hence agree with each other; AVX512 per interleaved state; lane-kernel preconditions at every call '
                     'site; tables canonical, M_ < 2^8, M_/P_ = transposed flattening of M/P; hash* = first four elements')
    shared = {'pp': PPTable()}
    for cfg in ('avx2', 'avx512'):
        check_cfg(rep, cfg, shared)
    # the permutations are interpreted with the lane kernels replaced by their contracts: the contracts themselves are
    # discharged here too (kernel mode, every lane), so that a defect inside a kernel the permutation uses is reported
    # by this check and not only by C02 / C11
    from .. import kcheck, matcheck
    kcheck.prove_field_contracts(rep, 'avx2', 4, seed=seed)
    kcheck.prove_field_contracts(rep, 'avx512', 8, seed=seed)
    # ... and the dot / sparse / dense matrix kernels the rounds are made of (their own properties are C13 / C14)
    from . import c13, c14
    matcheck.run_family(rep, 'avx2', c13.PAT, 11, 'C06')
    matcheck.run_family(rep, 'avx512', c14.PAT, 7, 'C06')
    rep.assumptions += ['the reference in the checker takes the round constants and matrices from the library tables (no independent source exists '
                        'in the repository): "the tables are the specified ones" is pinned by the known-answer tests, not by this check',
                        'two residue normal forms of total degree d that differ are different functions (Schwartz-Zippel; d << p)']
    rep.trusted = ['clang 14 lowering', 'glv abstract interpreter', 'lane-kernel contracts (C01, C02, C11)', 'matrix kernels summarised only where contracted (spmv_*_4x12_8)']
