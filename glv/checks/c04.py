"""C04: INTT is the exact inverse transform in every configuration (bounded shapes, all data)."""
from .. import nttcheck, nttrules
from ..nttmodel import dft_matrix, NTTWorld
from ..poly import P

LEVEL = 'proof'


def run(rep, tier, seed):
    rep.rule_text = ('as C03 for INTT: every output cell must have the coefficient vector n^-1 * w^(-jk); the inverse-DFT matrix times the DFT matrix is '
                     'checked to be the identity for every size in the bound (so INTT(NTT(x)) = NTT(INTT(x)) = x as field elements); null destination '
                     'means in place')
    cfgs = nttcheck.ntt_configs(tier, seed)
    res = nttcheck.run_parallel('intt', cfgs)
    nttcheck.record(rep, 'intt', res, nttcheck.describe_ntt, 'idft-bounded-shape')
    nttcheck.threshold_notes(rep, 'ntt')
    rep.floor('configurations', len(res), 1000 if tier == 'quick' else 20000)
    W = NTTWorld('avx2')
    for lg in range(0, 5 if tier == 'quick' else 7):
        n = 1 << lg
        w = W.W(lg)
        A = dft_matrix(n, w)
        B = dft_matrix(n, w, inverse=True)
        ok = all(sum(B[i][k] * A[k][j] for k in range(n)) % P == (1 if i == j else 0) for i in range(n) for j in range(n))
        (rep.ok if ok else rep.refute)('roundtrip:n=%d' % n, 'idft-inverse-of-dft', 'src/goldilocks_base_field.cpp',
                                       'inverse-DFT matrix x DFT matrix = identity for n=%d with w=W[%d]' % (n, lg))
    nttrules.run_rules(rep, ('intt-null', 'powtwoinv', 'fpround-ntt'))
    rep.sample(dict(kind='intt', example=nttcheck.describe_ntt(cfgs[len(cfgs) // 3]), configurations=len(cfgs)))
    rep.assumptions += ['bounded in shape (universal in data and representation)']
    rep.trusted = ['clang 14 lowering', 'glv interpreter', 'scalar field contracts (C01)', 'GMP model']
