"""C03: the forward transform computes the DFT for every size and configuration (bounded shapes, all data) + shape-independent rules."""
from .. import nttcheck, nttrules

LEVEL = 'proof'


def run(rep, tier, seed):
    rep.rule_text = ('bounded-shape abstract interpretation: constructor, NTT and destructor interpreted on the IR with concrete shape parameters and '
                     'symbolic matrix entries (linear forms over input atoms); every output cell must have the coefficient vector of the DFT matrix '
                     'built from the library root W[log2 n]; source untouched when dst differs; no sink (assert/abort/null/out-of-bounds/uninitialised '
                     'read) reached; allocations released; size 0 / zero columns a no-op. Shape-independent rules (null-belief, dependence of the pass '
                     'schedule on the call size only, divisor clamps) are checked on the IR for all shapes')
    cfgs = nttcheck.ntt_configs(tier, seed)
    res = nttcheck.run_parallel('ntt', cfgs)
    nttcheck.record(rep, 'ntt', res, nttcheck.describe_ntt, 'dft-bounded-shape')
    ntab = nttcheck.check_tables(rep, tier)
    rep.floor('table checks', ntab, 20)
    nttcheck.threshold_notes(rep, 'ntt')
    rep.floor('configurations', len(res), 1000 if tier == 'quick' else 20000)
    nttrules.run_rules(rep, ('null', 'dep-s', 'shift', 'abort-census', 'w-chain', 'fpround-ntt'))
    rep.sample(dict(kind='ntt', example=nttcheck.describe_ntt(cfgs[len(cfgs) // 2]), configurations=len(cfgs)))
    rep.cov['shapes'] = 'capacity<=%d, size|capacity, ncols, nphase, nblock, buffer, dst mode, nThreads (see rule)' % (32 if tier == 'quick' else 128)
    rep.assumptions += ['bounded in shape (universal in data and representation); the DFT identity for sizes beyond the bound is not decided']
    rep.trusted = ['clang 14 lowering', 'glv interpreter', 'scalar field contracts (C01)', 'GMP model of 12 entry points on Python integers']
