"""C18: no out-of-bounds, uninitialised, mismatched-free or undefined behaviour (statically visible clauses)."""
import re, os
from .. import front, contracts, harness, nttcheck, rules
from ..interp import Incomplete, Sink, Ptr, NULL
from ..ir import IRError
from ..wrapcheck import site_of, sink_site
from ..specs import ext_spec
from ..nttrules import run_rules
from . import c07, c08

LEVEL = 'proof'
MEMKINDS = ('oob', 'uninit', 'null', 'dealloc', 'doublefree', 'uaf', 'div0', 'shift', 'rowrite', 'unreachable', 'trap')


def is_mem(msg):
    return any(msg.startswith(k + ':') for k in MEMKINDS)


def wrapper_safety(rep, cfg):
    """every wrapper / matrix / extension routine: local arrays never indexed outside their extent, no uninitialised local read,
    register and fixed-size operands never overrun (strided operands have unknown extent: their footprint is decided by C16/C17)"""
    mod = front.module(cfg)
    pats = [r'^Goldilocks::(copy|add|sub|mul)_(avx512|avx|batch)\(', ext_spec.PAT, r'^Goldilocks::(spmv|mmult|dot)_avx',
            r'^Goldilocks3::(add|sub|neg|mul|square|div|inv|copy|zero|one|fromU64|copy_batch|copy_avx|copy_avx512)\(',
            r'^Goldilocks::(load|store|set)_avx']
    n = 0
    kernel_sigs = {c['sig'] for c in contracts.FIELD + contracts.INT + contracts.DOT8}
    for pat in pats:
        for name in mod.find_re(pat):
            dem = mod.dem[name]
            if cfg == 'avx512' and '512' not in dem:
                continue
            if dem in kernel_sigs:
                continue        # arithmetic kernels are analysed in kernel mode (C02/C11)
            ctx = contracts.Ctx()
            summ, _ = contracts.wrapper_summaries(mod, ctx)
            summ.pop(name, None)
            n += 1
            tag = 'safety:%s/%s' % (cfg, dem)
            try:
                ps = harness.describe(mod, name)
                ext = None
                m = re.match(ext_spec.PAT, dem)
                if m:
                    try:
                        ext = ext_spec.extents(ps, 8 if m.group(3) == 'avx512' else 4)
                    except Exception:
                        ext = None
                # every path over the order / equality tests the routine makes on its scalar shape parameters
                from ..wrapcheck import explore_paths
                for _p in explore_paths(mod, name, summ, ctx, ps, extents=ext, opts0={'atom_ts': lambda r, i: 'bits8'}, maxpaths=32):
                    pass
                rep.ok(tag, 'footprint-in-extent', site_of(mod, name), 'all local-array, register and fixed-size accesses inside their extents; no uninitialised read')
            except Sink as e:
                if e.kind in MEMKINDS:
                    rep.refute(tag, 'footprint-in-extent', sink_site(e, site_of(mod, name)), str(e))
                else:
                    rep.ok(tag, 'footprint-in-extent', site_of(mod, name), 'no memory-safety sink (%s is decided elsewhere)' % e.kind)
            except (Incomplete, IRError) as e:
                # kernels themselves and routines with data-dependent integers are outside wrapper mode: not a safety verdict
                if 'raw' in str(e) or 'data-dependent' in str(e) or 'toU64' in str(e) or 'needs a value' in str(e):
                    n -= 1
                    continue
                rep.incomplete(tag, 'footprint-in-extent', site_of(mod, name), str(e))
    return n


def lifetimes(rep, tier):
    """construction, any use, destruction: matching deallocators, no double free, no use after free (bounded object sizes)"""
    from ..nttmodel import NTTWorld
    hist = [[], [('ntt', 4)], [('intt', 2)], [('ext', 2, 4)], [('ext', 4, 4), ('ext', 2, 8)], [('ext', 1, 1), ('ntt', 1), ('ext', 8, 8)]]
    n = 0
    for cap in ((1, 8) if tier == 'quick' else (1, 2, 8, 32)):
        for nthreads in (0, 3):
            for h in hist:
                W = NTTWorld('avx2')
                tag = 'lifetime:cap=%d nThreads=%d %s' % (cap, nthreads, h or 'unused')
                n += 1
                try:
                    base = list(W.I.heap)
                    this = W.construct(cap, nthreads, 1)
                    for op in h:
                        if max(op[1:]) > cap:
                            continue
                        if op[0] in ('ntt', 'intt'):
                            src = W.buffer('src', op[1] * 2)
                            W.I.call(W.names[op[0]], [this, NULL, Ptr(src, 0), op[1], 2, NULL, 3, 1] + ([0, 0] if op[0] == 'ntt' else [0]))
                        else:
                            io = W.buffer('io', op[2] * 2)
                            W.I.call(W.names['ext'], [this, Ptr(io, 0), Ptr(io, 0), op[2], op[1], 2, NULL, 3, 1])
                    W.destroy(this)
                    lk = W.leaks(base)
                    rep.ok(tag, 'object-lifetime', 'src/ntt_goldilocks.hpp', 'constructed, used and destroyed: every release matches its allocation; %d blocks not released' % len(lk))
                    if lk:
                        rep.note('leak (information): %s: %s' % (tag, [r.name for r in lk]))
                except Sink as e:
                    (rep.refute if e.kind in MEMKINDS else rep.incomplete)(tag, 'object-lifetime', sink_site(e, 'src/ntt_goldilocks.hpp'), str(e))
                except (Incomplete, IRError) as e:
                    rep.incomplete(tag, 'object-lifetime', 'src/ntt_goldilocks.hpp', str(e))
    return n


def run(rep, tier, seed):
    rep.rule_text = ('R-ALLOC (release kind matches every allocation kind that may reach it, members and locals), R-SHIFT (no int shift with variable '
                     'amount widened to 64 bits), R-ALIGN (aligned vector accesses and aligned-contract calls only through provably aligned pointers), '
                     'footprint-in-extent for every wrapper / matrix / extension routine (local arrays, registers, fixed-size operands; no uninitialised '
                     'read), object lifetimes (construct - use - destroy on the abstract heap with allocation kinds), and the memory-safety sinks '
                     '(out-of-bounds, uninitialised read, null, division by zero, over-wide shift, mismatched/double free) of the bounded-shape tiers of '
                     'the transforms, the sponge and the Merkle builders with exact-size buffers')
    run_rules(rep, ('alloc', 'shift', 'align'))
    # call histories: the memory-safety sinks met while closing the state space of one transform object under the call alphabet
    # of C19 (rows and columns vary between calls: a scratch buffer that is kept between calls must fit every later call)
    from . import c19
    ns_, nt_ = c19.explore(rep, tier, (16,) if tier == 'quick' else (16, 64), rule='history-safety', sinks_only=True)
    rep.cov['history_states'] = ns_
    rep.cov['history_transitions'] = nt_
    rep.ok('history-safety:closure', 'history-safety', 'src/ntt_goldilocks.cpp', '%d object states x call alphabet = %d calls: every memory-safety sink met is reported above' % (ns_, nt_))
    rules.rule_shift(rep, r'^(PoseidonGoldilocks::|Goldilocks::parcpy|Goldilocks::parSetZero|Goldilocks::exp|Goldilocks3::)', floor=0, label='hash / helper units')
    rules.rule_narrow(rep)
    # strided / indexed operands have no extent of their own: "reads only the declared input, writes only the declared output"
    # means exactly the cells the signature designates - the write-set and read-set obligations of C16 / C17 are obligations
    # of this property too (a stray store that stays inside the caller's buffer is otherwise invisible)
    from . import c16, c17
    from ..report import Report
    from ..specs import base_spec
    from .. import wrapcheck
    nfp = 0
    for cfg in ('avx2', 'avx512'):
        m_ = front.module(cfg)
        for n_ in m_.find_re(ext_spec.PAT):
            sub = Report('C18', tier)
            wrapcheck.check_overload(sub, m_, cfg, n_, ext_spec.spec, extents_fn=c16.make_extents(m_.dem[n_]), sample=False)
            for o in sub.obl:
                if o['status'] != 'discharged' and ('designated' in o['detail'] or o['rule'] in ('wrapper-footprint', 'wrapper-safety')):
                    rep.add('footprint:' + o['id'], o['status'], 'designated-cells', o['site'], o['detail'])
            nfp += 1
        ks = {c_['sig'] for c_ in contracts.FIELD}
        for n_ in m_.find_re(c17.PAT):
            if m_.dem[n_] in ks:
                continue
            sub = Report('C18', tier)
            wrapcheck.check_overload(sub, m_, cfg, n_, c17.specfn, sample=False)
            for o in sub.obl:
                if o['status'] != 'discharged' and ('designated' in o['detail'] or o['rule'] in ('wrapper-footprint', 'wrapper-safety')):
                    rep.add('footprint:' + o['id'], o['status'], 'designated-cells', o['site'], o['detail'])
            nfp += 1
    rep.ok('footprint:census', 'designated-cells', 'src', 'write set = designated cells and reads inside designated cells for %d strided / indexed overloads' % nfp)
    rep.floor('overloads checked for designated cells', nfp, 500)
    nw = wrapper_safety(rep, 'avx2') + wrapper_safety(rep, 'avx512')
    rep.floor('routines checked for footprint-in-extent', nw, 360)
    nl = lifetimes(rep, tier)
    # bounded-shape tiers, memory-safety sinks only
    ncfg = [c for i, c in enumerate(nttcheck.ntt_configs('quick', seed)) if i % (6 if tier == 'quick' else 1) == 0]
    ecfg = [c for i, c in enumerate(nttcheck.ext_configs('quick', seed)) if i % (6 if tier == 'quick' else 1) == 0]
    nb = 0
    for kind, cfgs, desc in (('ntt', ncfg, nttcheck.describe_ntt), ('intt', ncfg, nttcheck.describe_ntt), ('ext', ecfg, nttcheck.describe_ext)):
        for c, r in nttcheck.run_parallel(kind, cfgs):
            nb += 1
            tag = 'bounded:%s %s' % (kind, desc(c))
            if r is None:
                rep.ok(tag, 'bounded-shape-safety', 'src/ntt_goldilocks.cpp', 'every access inside size*ncols / size*ncols_alloc / N_ext*ncols; allocations released with free')
            else:
                st, msg, loc = r
                site = '%s:%s' % (front.rel(loc[0]), loc[1]) if loc and loc[0] else 'src/ntt_goldilocks.cpp'
                if st == 'refuted' and is_mem(msg):
                    rep.refute(tag, 'bounded-shape-safety', site, msg)
                elif st == 'incomplete':
                    rep.incomplete(tag, 'bounded-shape-safety', site, msg)
                else:
                    rep.ok(tag, 'bounded-shape-safety', site, 'no memory-safety sink (functional mismatch is reported by C03-C05)')
    # two-thread world: code that asks for its thread number / team size is also executed as thread 1 of a team of two (upper
    # half of every static loop; possible for every region that does not pin its team to one thread: the team a region gets is
    # never the program's choice).  Only out-of-bounds sinks count there - results and initialisation state are those of a
    # partial execution.  The pinned tree never asks for its thread number, so the pass is empty on it (census below).
    import re as _re
    ntid = len(_re.findall(r'call[^\n]*@omp_get_(?:thread_num|num_threads)\(', open(front.ir_path('avx2', True, True)).read()))
    n2 = 0
    if ntid:
        for kind, cfgs, desc in (('ntt', ncfg, nttcheck.describe_ntt), ('intt', ncfg, nttcheck.describe_ntt), ('ext', ecfg, nttcheck.describe_ext)):
            for c, r in nttcheck.run_parallel(kind, cfgs, omp=True, opts={'omp_world': 'upper2'}):
                n2 += 1
                if r is not None and r[0] == 'refuted' and r[1].startswith('oob:'):
                    loc = r[2]
                    site = '%s:%s' % (front.rel(loc[0]), loc[1]) if loc and loc[0] else 'src/ntt_goldilocks.cpp'
                    rep.refute('two-thread:%s %s' % (kind, desc(c)), 'bounded-shape-safety', site, 'as thread 1 of a team of two (upper half of each static loop): ' + r[1])
    rep.ok('two-thread:census', 'bounded-shape-safety', 'src', '%d call sites of omp_get_thread_num / omp_get_num_threads; %d transform configurations re-run as thread 1 of a team of two (out-of-bounds sinks only)' % (ntid, n2))
    for cfg in ('avx2', 'avx512'):
        mod = front.module(cfg)
        for variant, two in c07.VARIANTS:
            if two == 2 and cfg != 'avx512':
                continue
            for size in range(0, 41):
                nb += 1
                tag = 'bounded:%s/%s size=%d' % (cfg, variant, size)
                try:
                    c07.run_lh(mod, variant, two, size, c07.PermTable())
                    rep.ok(tag, 'bounded-shape-safety', 'src/poseidon_goldilocks.cpp', 'state / input / output accesses inside their extents')
                except Sink as e:
                    (rep.refute if e.kind in MEMKINDS else rep.ok)(tag, 'bounded-shape-safety', sink_site(e, 'src/poseidon_goldilocks.cpp'), str(e))
                except (Incomplete, IRError) as e:
                    rep.incomplete(tag, 'bounded-shape-safety', 'src/poseidon_goldilocks.cpp', str(e))
        for variant, isb, only in c08.BUILDERS[:6]:
            if (only or 'avx2') != cfg:
                continue
            for rows in (1, 2, 4):
                for cols in (0, 1, 5):
                    for b in ((1, 8) if isb else (None,)):
                        nb += 1
                        tag = 'bounded:%s/%s rows=%d cols=%d batch=%s' % (cfg, variant, rows, cols, b)
                        r = c08.run_one(mod, variant, rows, cols, 3, b, 2)
                        if r is None or not (r[0] == 'refuted' and is_mem(r[1])):
                            if r is not None and r[0] == 'incomplete':
                                rep.incomplete(tag, 'bounded-shape-safety', 'src/poseidon_goldilocks.cpp', r[1])
                            else:
                                rep.ok(tag, 'bounded-shape-safety', 'src/poseidon_goldilocks.cpp', 'tree / input / local buffers accessed inside their extents')
                        else:
                            loc = r[2]
                            rep.refute(tag, 'bounded-shape-safety', '%s:%s' % (front.rel(loc[0]), loc[1]) if loc and loc[0] else 'src/poseidon_goldilocks.cpp', r[1])
    rep.sample(dict(routines_footprint=nw, lifetimes=nl, bounded_configurations=nb))
    rep.note('NOT DECIDED: stack exhaustion by parameter-sized VLAs (batchInverse aux[size], tmp[size]; reversePermutation tmp[ncols]); shapes outside the bounds')
    rep.assumptions += ['bounded-shape clauses hold for the explored shapes only; rule clauses (R-ALLOC, R-SHIFT, R-ALIGN, footprint-in-extent) for all shapes',
                        'strided operands of the wrappers have caller-defined extents: their exact footprint is decided by C16/C17']
    rep.trusted = ['clang 14 lowering', 'glv interpreter (abstract heap with allocation kinds, extents, initialisation state)']
