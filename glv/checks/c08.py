"""C08: the Merkle tree buffer and root are the binary Poseidon tree over row digests (bounded shapes, all data) + sibling agreement."""
import re, itertools, os
from .. import front, harness, rawhelper
from ..interp import Incomplete, Sink, Interp, Region, Ptr
from ..ir import IRError
from ..poly import Poly, FV, C
from ..wrapcheck import site_of, sink_site
from .c07 import PermTable, perm_summaries, sponge, nf_of

LEVEL = 'proof'
BUILDERS = [('merkletree_seq', False, None), ('merkletree_avx', False, None), ('merkletree_avx512', False, 'avx512'),
            ('merkletree_batch_seq', True, None), ('merkletree_batch_avx', True, None), ('merkletree_batch_avx512', True, 'avx512'),
            ('merkletree', False, None), ('merkletree_batch', True, None)]


def tree_spec(pt, leafs):
    lvl = leafs
    out = []
    for l in lvl:
        out += l
    while len(lvl) > 1:
        nxt = [pt.perm(lvl[2 * i] + lvl[2 * i + 1] + [C(0)] * 4)[:4] for i in range(len(lvl) // 2)]
        for l in nxt:
            out += l
        lvl = nxt
    return out


def atoms(a, b):
    return [Poly.var('input[%d]' % i) for i in range(a, b)]


def leaf_spec(pt, rows, cols, dim, batch):
    w = cols * dim
    if batch is None:
        return [sponge(pt, atoms(r * w, (r + 1) * w)) for r in range(rows)]
    leafs = []
    for r in range(rows):
        nb = (cols + batch - 1) // batch if cols > 0 else 1
        ds = []
        for j in range(nb):
            nn = batch if j < nb - 1 else cols - (nb - 1) * batch
            ds += sponge(pt, atoms(r * w + j * batch * dim, r * w + j * batch * dim + nn * dim))
        leafs.append(sponge(pt, ds))
    return leafs


def run_one(mod, variant, rows, cols, dim, batch, nthreads):
    pt = PermTable()
    S = perm_summaries(mod, pt)
    names = harness.family(mod, r'^PoseidonGoldilocks::%s\(' % variant)
    if len(names) != 1:
        return ('incomplete', 'builder %s not found' % variant, None)
    name = names[0]
    vals = {'num_cols': cols, 'num_rows': rows, 'nThreads': nthreads, 'dim': dim}
    if batch is not None:
        vals['batch_size'] = batch
    nelem = 4 * (2 * rows - 1)
    try:
        eff = harness.run_routine(mod, name, S, values=vals, extents={'tree': 8 * nelem, 'input': 8 * rows * cols * dim},
                                  opts={'omp_max_threads': 4, 'raw_helper': rawhelper.decide})
    except Sink as e:
        return ('refuted', '%s (%s)' % (e, ' <- '.join(e.stack[:2])), e.loc)
    except (Incomplete, IRError) as e:
        return ('incomplete', str(e), None)
    hf = harness.helper_refutation(eff)
    exp = tree_spec(pt, leaf_spec(pt, rows, cols, dim, batch))
    if len(exp) != nelem:
        return ('incomplete', 'specification size', None)
    for i, e in enumerate(exp):
        g = eff.writes.get(('tree', 8 * i))
        if g is None:
            return ('refuted', 'tree cell %d (node %d) is never written' % (i, i // 4), None)
        if nf_of(g) != e.modp():
            if hf:
                return ('incomplete', 'a helper computing on raw representations could not be summarised (not multilinear) and the tree misses the specification with its interpolant in place', None)
            return ('refuted', 'tree cell %d (node %d, level data) differs from the binary Poseidon tree over the row digests' % (i, i // 4), None)
    if len(eff.writes) != nelem:
        return ('refuted', '%d tree cells written, getTreeNumElements gives %d' % (len(eff.writes), nelem), None)
    rd = {k for k in eff.reads if k[0] == 'input'}
    if rd != {('input', 8 * i) for i in range(rows * cols * dim)}:
        return ('refuted', 'input read set is not exactly rows*cols*dim elements', None)
    if harness.helper_refutation(eff):
        return ('refuted', harness.helper_refutation(eff), None)
    return None


def _worker(args):
    cfg, jobs = args
    mod = front.module(cfg)
    out = []
    for j in jobs:
        try:
            r = run_one(mod, *j)
        except Exception as e:
            r = ('incomplete', 'engine: %s: %s' % (type(e).__name__, str(e)[:200]), None)
        out.append((j, r))
    return out


def helper_checks(rep, mod):
    """getTreeNumElements(n) = 4(2n-1) and root() = last four elements, for symbolic n (all shapes)"""
    from ..poly import as_poly
    names = harness.family(mod, r'^MerklehashGoldilocks::getTreeNumElements\(')
    for n in names:
        try:
            eff = harness.run_routine(mod, n, {})
            want = Poly.var('degree') * 8 - 4
            ok = isinstance(eff.ret, Poly) and eff.ret == want
            (rep.ok if ok else rep.refute)('helper:getTreeNumElements', 'merkle-helpers', site_of(mod, n),
                                           'returns %s, tree has 4(2n-1) elements' % eff.ret)
        except (Incomplete, Sink) as e:
            rep.incomplete('helper:getTreeNumElements', 'merkle-helpers', site_of(mod, n), str(e))
    for n in harness.family(mod, r'^MerklehashGoldilocks::root\('):
        try:
            eff = harness.run_routine(mod, n, {}, extents={'root': 32})
            keys = sorted(eff.reads, key=str)
            want = {('tree', (Poly.var('numElementsTree') * 8 - 32 + 8 * j)) for j in range(4)}
            got = {(k[0], as_poly(k[1])) for k in eff.reads if k[0] == 'tree'}
            ok = got == {(a, b) for a, b in want} and len(eff.writes) == 4
            (rep.ok if ok else rep.refute)('helper:root:%s' % mod.dem[n][:60], 'merkle-helpers', site_of(mod, n),
                                           'copies tree[numElementsTree-4 .. numElementsTree) into root' if ok else 'reads %s' % keys[:4])
        except (Incomplete, Sink) as e:
            rep.incomplete('helper:root', 'merkle-helpers', site_of(mod, n), str(e))


def run(rep, tier, seed):
    rep.rule_text = ('each of the six builders and the two default wrappers is interpreted abstractly for every shape in the bound with the permutation '
                     'opaque and hash-consed: every tree cell must equal the reference tree (row digests by the reference sponge, batched leaves = digest '
                     'of concatenated batch digests, then pairwise hashes with zero capacity level by level); written extent = getTreeNumElements(rows) '
                     'exactly; input read set exactly rows*cols*dim; no out-of-bounds access; helper functions decided for symbolic sizes')
    rows_l = [1, 2, 4, 8] if tier == 'quick' else [1, 2, 4, 8, 16, 32]
    cols_l = [0, 1, 4, 5, 9, 17] if tier == 'quick' else [0, 1, 3, 4, 5, 8, 9, 16, 17, 33]
    dims = [1, 3]
    batches = [1, 3, 8, 20] if tier == 'quick' else [1, 2, 3, 4, 8, 20, 64]
    threads = [2] if tier == 'quick' else [0, 1, 3]
    jobs = {'avx2': [], 'avx512': []}
    for variant, isb, only in BUILDERS:
        for cfg in ('avx2', 'avx512'):
            if only and cfg != only:
                continue
            if cfg == 'avx512' and not only and variant not in ('merkletree', 'merkletree_batch') and tier == 'quick':
                continue
            for rows, cols, dim, nt in itertools.product(rows_l, cols_l, dims, threads):
                for b in (batches if isb else [None]):
                    jobs[cfg].append((variant, rows, cols, dim, b, nt))
    # tall trees (the permutation is opaque, so the cost is linear in the number of nodes): every level count up to 2^10 (2^12
    # thorough), with a narrow matrix; a counter or an index that is too narrow, a level cap, a per-level buffer that is reused
    # wrongly shows here
    tall = [64, 256, 1024] if tier == 'quick' else [64, 128, 256, 512, 1024, 2048, 4096]
    for variant, isb, only in BUILDERS:
        for cfg in ('avx2', 'avx512'):
            if only and cfg != only:
                continue
            if cfg == 'avx512' and not only and variant not in ('merkletree', 'merkletree_batch'):
                continue
            for rows in tall:
                for cols, dim in ((1, 1), (5, 3)) if rows <= 256 else ((3, 1),):
                    for b in ([2, 4] if isb else [None]):
                        jobs[cfg].append((variant, rows, cols, dim, b, 2))
    # threshold-directed shapes: both sides of every integer constant the tree / sponge code has that the pinned tree did not
    from .. import thresholds
    ths = thresholds.new_thresholds('poseidon')
    xs, skipped = thresholds.merkle_extra(ths, tier)
    for variant, isb, only in BUILDERS:
        for cfg in ('avx2', 'avx512'):
            if only and cfg != only:
                continue
            if cfg == 'avx512' and not only and variant not in ('merkletree', 'merkletree_batch'):
                continue
            for rows, cols, dim, b in xs:
                if (b is not None) == bool(isb):
                    jobs[cfg].append((variant, rows, cols, dim, b, 2))
    if ths:
        rep.note('threshold-directed shapes: new integer constants %s in the tree / sponge code; %d shapes per builder added' % (ths, len(xs)))
    if skipped:
        rep.note('NOT DECIDED: constants %s are beyond the shapes this tier can explore' % skipped)
    import multiprocessing as mp
    nproc = min(16, os.cpu_count() or 4)
    work = []
    for cfg, js in jobs.items():
        for i in range(nproc):
            if js[i::nproc]:
                work.append((cfg, js[i::nproc]))
    with mp.Pool(nproc) as pool:
        res = pool.map(_worker, work)
    n = 0
    for (cfg, _), rs in zip(work, res):
        for j, r in rs:
            n += 1
            variant, rows, cols, dim, b, nt = j
            tag = 'tree:%s/%s rows=%d cols=%d dim=%d%s nThreads=%d' % (cfg, variant, rows, cols, dim, '' if b is None else ' batch=%d' % b, nt)
            if r is None:
                rep.ok(tag, 'merkle-bounded-shape', 'src/poseidon_goldilocks.cpp', 'tree buffer equals the reference tree; extent and read set exact')
            else:
                st, msg, loc = r
                site = '%s:%s' % (front.rel(loc[0]), loc[1]) if loc and loc[0] else 'src/poseidon_goldilocks.cpp'
                (rep.refute if st == 'refuted' else rep.incomplete)(tag, 'merkle-bounded-shape', site, msg)
    rep.floor("configurations", n, 1200 if tier == "quick" else 20000)
    helper_checks(rep, front.module('avx2'))
    from .. import rules
    rules.rule_fpround(rep, r'^(PoseidonGoldilocks::merkletree|MerklehashGoldilocks::)', floor_double=1)
    rep.sample(dict(builders=[b[0] for b in BUILDERS], rows=rows_l, cols=cols_l, dims=dims, batches=batches, configurations=n))
    rep.assumptions += ['bounded in shape (universal in data); the permutation and the sponge are opaque / decided by C06, C07']
    rep.trusted = ['clang 14 lowering', 'glv interpreter']
