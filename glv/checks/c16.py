"""C16: every batched/AVX2/AVX512 cubic-extension variant equals the scalar extension operation."""
import re
from .. import front, contracts, harness, wrapcheck
from ..interp import Incomplete
from ..specs import ext_spec

LEVEL = 'proof'
FLOORS = {'avx2': 111, 'avx512': 156}


def make_extents(dem):
    m = re.match(ext_spec.PAT, dem)
    W = 8 if m.group(3) == 'avx512' else 4
    return lambda params: ext_spec.extents(params, W)


def run(rep, tier, seed):
    rep.rule_text = ('every Goldilocks3::{add,sub,mul}<shape>_{batch,avx,avx512} overload is interpreted abstractly on symbolic operands, '
                     'strides and index arrays; for every k and component j the written cell must equal the scalar extension operation '
                     '(schoolbook product mod x^3-x-1) on the k-th designated operands, derived from the signature only; write set = designated '
                     'cells exactly; reads inside designated cells; kernel preconditions at every call site')
    nfun = 0
    nalias = 0
    for cfg in ('avx2', 'avx512'):
        mod = front.module(cfg)
        names = mod.find_re(ext_spec.PAT)
        rep.floor('overloads[%s]' % cfg, len(names), FLOORS[cfg])
        for n in names:
            nfun += 1
            ef = make_extents(mod.dem[n])
            wrapcheck.check_overload(rep, mod, cfg, n, ext_spec.spec, extents_fn=ef)
            # in place: output aliased with an operand of identical shape (x = x op y on register triples / unit-stride arrays)
            try:
                hyps = ext_spec.inplace_hyps(mod.dem[n], harness.describe(mod, n))
            except Incomplete:
                hyps = []
            for h in hyps:
                nalias += 1
                wrapcheck.check_overload(rep, mod, cfg, n, ext_spec.spec, alias=h, extents_fn=ef, sample=False)
    rep.cov['functions_analysed'] = nfun
    rep.cov['in_place_hypotheses'] = nalias
    rep.floor('same-shape in-place hypotheses', nalias, 119)
    rep.cov['configs'] = ['avx2', 'avx512']
    rep.trusted = ['clang 14 front end and -O0 lowering', 'glv abstract interpreter (IR subset semantics)',
                   'kernel contracts (proved separately by C01/C02/C11)', 'shape-code grammar of glv/specs/ext_spec.py',
                   'scalar extension arithmetic as the reference (its own correctness is C09)']
