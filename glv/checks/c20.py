"""C20: GPU field arithmetic (PTX subset semantics, all operands, both instruction variants) and device tables implement the same field as the CPU."""
import os, re, subprocess
from .. import front
from ..interp import Interp, run_global_ctors
from ..poly import P, FV

LEVEL = 'proof'
TABLES = ('omegas', 'omegas_inv', 'domain_size_inverse')


def extract_decl(text, name):
    """name-anchored, brace-balanced extraction of `<qualifiers> uint64_t name[33] = {...};`"""
    m = re.search(r'(?:__device__\s+|__constant__\s+|static\s+|const\s+)*uint64_t\s+' + re.escape(name) + r'\s*\[\s*(\d+)\s*\]\s*=\s*\{', text)
    if not m:
        return None
    i = m.end() - 1
    d = 0
    for j in range(i, len(text)):
        if text[j] == '{':
            d += 1
        elif text[j] == '}':
            d -= 1
            if d == 0:
                return int(m.group(1)), text[i:j + 1]
    return None


def cuda_tables():
    """the three device tables, evaluated by clang as C constant initialisers (no regex on the numbers)"""
    path = os.path.join(front.SRC, 'ntt_goldilocks.cuh')
    text = open(path).read()
    text_nc = re.sub(r'//[^\n]*', '', text)
    text_nc = re.sub(r'/\*.*?\*/', '', text_nc, flags=re.S)
    src = ['#include <stdint.h>']
    sizes = {}
    for t in TABLES:
        r = extract_decl(text_nc, t)
        if r is None:
            return None, 'table %s not found in ntt_goldilocks.cuh' % t
        n, body = r
        sizes[t] = n
        src.append('const uint64_t %s[%d] = %s;' % (t, n, body))
    d = front.cache_dir()
    cfile = os.path.join(d, 'cuda_tables.c')
    with open(cfile, 'w') as f:
        f.write('\n'.join(src) + '\n')
    ll = os.path.join(d, 'cuda_tables.ll')
    r = subprocess.run(['clang', '-std=c11', '-O0', '-S', '-emit-llvm', '-Wall', '-Werror', cfile, '-o', ll], capture_output=True, text=True)
    if r.returncode != 0:
        return None, 'clang rejected the extracted table initialisers: ' + r.stderr[-300:]
    from ..ir import Module
    m = Module(ll)
    I = Interp(m, {})
    out = {}
    for t in TABLES:
        reg = I.global_region('@' + t)
        out[t] = [I.mem[(reg, 8 * i)][0] for i in range(sizes[t])]
    return out, None


def run(rep, tier, seed):
    rep.rule_text = ('the three device tables of ntt_goldilocks.cuh are extracted (name-anchored, brace-balanced) and evaluated by clang as C constant '
                     'initialisers; relations: omegas[i] = CPU W[i] (IR global after running its dynamic initialiser), omegas[i]^2 = omegas[i-1], '
                     'omegas[1] = p-1, omegas[i]*omegas_inv[i] = 1, domain_size_inverse[i]*2^i = 1 (mod p) for all 33 rows; gl64_t::MOD = p, W = 2^32-1. '
                     'Arithmetic: src/gl64_t.cuh goes through the host C++ front end (CUDA qualifiers defined away, PTX strings verbatim) for '
                     '__CUDA_ARCH__ = 700 and 600; the inline PTX (add/addc/sub/subc/mul/mad/madc/setp/selp/mov, carry flag, predicates) is '
                     'interpreted over exact integer polynomials on 32-bit limb symbols; operator+=, -=, cneg, unary minus, mul, operator*=, sqr, '
                     'mul(uint32_t), reduce() and reduce(temp[4]) are shown equal to the exact result mod p (canonical where promised) for all '
                     'operands: predicates partition the state, dropped / folded carry bits are enumerated and the non-congruent combinations shown '
                     'empty by Fourier-Motzkin elimination with integer tightening; refutation only with a concrete witness')
    rep.explanation = rep.rule_text
    from .. import gpucheck
    gpucheck.run(rep, tier, seed)
    tabs, err = cuda_tables()
    site = 'src/ntt_goldilocks.cuh'
    if tabs is None:
        rep.incomplete('tables', 'cuda-table-relations', site, err)
        return
    mod = front.module('avx2')
    I = Interp(mod, {})
    run_global_ctors(I)
    g = [n for n in mod._globtxt if n.startswith('@_ZN10Goldilocks1WE')]
    W = []
    if g:
        reg = I.global_region(g[0])
        for i in range(33):
            v = I.mem.get((reg, 8 * i))
            v = v[0] if v else None
            if isinstance(v, FV):
                v = v.nf.cval()
            W.append(v)
    if len(W) != 33 or any(not isinstance(x, int) for x in W):
        rep.incomplete('cpu-table', 'cuda-table-relations', 'src/goldilocks_base_field.cpp', 'CPU root table W[33] could not be evaluated')
        return
    for t in TABLES:
        (rep.ok if len(tabs[t]) == 33 else rep.refute)('size:' + t, 'cuda-table-relations', site, '%s has %d rows, expected 33' % (t, len(tabs[t])))
    om, oi, di = tabs['omegas'], tabs['omegas_inv'], tabs['domain_size_inverse']
    for i in range(min(33, len(om), len(oi), len(di))):
        probs = []
        if om[i] != W[i]:
            probs.append('omegas[%d] = %d differs from the CPU root W[%d] = %d' % (i, om[i], i, W[i]))
        if om[i] >= P or oi[i] >= P or di[i] >= P:
            probs.append('row %d holds a non-canonical value' % i)
        if om[i] * oi[i] % P != 1:
            probs.append('omegas[%d]*omegas_inv[%d] != 1 (mod p)' % (i, i))
        if di[i] * pow(2, i, P) % P != 1:
            probs.append('domain_size_inverse[%d]*2^%d != 1 (mod p)' % (i, i))
        if i >= 1 and om[i] * om[i] % P != om[i - 1]:
            probs.append('omegas[%d]^2 != omegas[%d]' % (i, i - 1))
        if i == 1 and om[1] != P - 1:
            probs.append('omegas[1] != p-1')
        if i == 0 and om[0] != 1:
            probs.append('omegas[0] != 1')
        (rep.refute if probs else rep.ok)('row:%d' % i, 'cuda-table-relations', site,
                                          '; '.join(probs) if probs else 'omegas = W[%d] (primitive 2^%d-th root), inverse and 2^-%d consistent' % (i, i, i))
    # constants of the device field type
    gl = open(os.path.join(front.SRC, 'gl64_t.cuh')).read()
    gl = re.sub(r'//[^\n]*', '', gl)
    m1 = re.search(r'static\s+const\s+uint64_t\s+MOD\s*=\s*(0x[0-9a-fA-F]+|\d+)U?L*\s*;', gl)
    m2 = re.search(r'uint32_t\s+W\s*=\s*(0x[0-9a-fA-F]+|\d+)U?\s*;', gl)
    if not m1 or not m2:
        rep.incomplete('consts', 'cuda-constants', 'src/gl64_t.cuh', 'MOD / W definitions not found')
    else:
        mv, wv = int(m1.group(1), 0), int(m2.group(1), 0)
        (rep.ok if mv == P else rep.refute)('const:MOD', 'cuda-constants', 'src/gl64_t.cuh', 'gl64_t::MOD = 0x%x, p = 0x%x' % (mv, P))
        (rep.ok if wv == (1 << 32) - 1 else rep.refute)('const:W', 'cuda-constants', 'src/gl64_t.cuh', 'gl64_device W = 0x%x, 2^64 mod p = 0x%x' % (wv, (1 << 64) % P))
    rep.sample(dict(rows=33, omegas_5=om[5], omegas_inv_5=oi[5], domain_size_inverse_5=di[5]))
    rep.assumptions += ['PTX semantics of the ten instruction forms used by gl64_t.cuh as written in glv/ptx.py (PTX ISA: .cc writes CC.CF, addc/subc/madc read it, '
                        'mad.lo/hi take the low/high 32 bits of the 64-bit product, predicated instructions are skipped when the guard is false)',
                        'the host front end sees the same C++ as nvcc for this header (qualifiers are empty macros; `%name` spelled `%%name`; one missing comma between asm operands inserted)',
                        'default configuration: GL64_PARTIALLY_REDUCED and GL64_NO_REDUCTION_KLUDGE undefined (no build file of the repository defines them)',
                        'not covered: operator<<=, >>=, ^=, dot_product, reciprocal, heptaroot, the cubic-extension device code and the NTT kernels (the property lists add, sub, neg, mul, mul by word, sqr, final reduction)']
    rep.trusted = ['clang C/C++ front end', 'brace-balanced extraction of the three table declarations', 'glv/ptx.py instruction semantics', 'glv kernel-mode domain incl. Fourier-Motzkin emptiness']
