"""C15: conversions are total, canonical and round-trip; predicates ignore the representation."""
import re
from .. import front, contracts, harness, kprove, kcheck, mpzmodel
from ..interp import Incomplete, Sink, Interp, Region, Ptr
from ..ir import IRError
from ..poly import Poly, FV, C, P, M64, M32, as_poly
from ..wrapcheck import site_of, sink_site
from .c09 import explore_predicate

LEVEL = 'proof'
E = 'Goldilocks::Element'
STR = 'std::__cxx11::basic_string<char, std::char_traits<char>, std::allocator<char> >'
MPZ = '__gmp_expr<__mpz_struct [1], __mpz_struct [1]>'
INF = float('inf')


def kernel_conversions(rep, seed):
    mod = front.module('avx2', sroa=True)
    jobs = [
        ('fromU64', 'Goldilocks::fromU64(%s&, unsigned long)' % E, [('a', 'u64', 0)], ['val'], 'u64', lambda A: A[0], 'stores the integer: residue of x, any x < 2^64'),
        ('fromS64 x>=0', 'Goldilocks::fromS64(%s&, long)' % E, [('a', 'nonneg63', 0)], ['val'], 'canon', lambda A: A[0], 'x >= 0: residue x, canonical'),
        ('fromS64 x<0', 'Goldilocks::fromS64(%s&, long)' % E, [('a', 'neg63', 0)], ['val'], 'canon', lambda A: A[0] - M64, 'x < 0: residue of x = bits - 2^64, canonical (x + p wraps exactly once)'),
        ('fromS32 x>=0', 'Goldilocks::fromS32(%s&, int)' % E, [('a', 'nonneg31', 0)], ['val32'], 'canon', lambda A: A[0], 'x >= 0'),
        ('fromS32 x<0', 'Goldilocks::fromS32(%s&, int)' % E, [('a', 'neg31', 0)], ['val32'], 'canon', lambda A: A[0] - M32, 'x < 0 including INT32_MIN'),
        ('toU64', 'Goldilocks::toU64(unsigned long&, %s const&)' % E, [('a', 'u64', 0)], None, 'canon', lambda A: A[0], 'canonical value in [0,p) of any representation'),
    ]
    for tag, sig, ins, modes, post, spec, what in jobs:
        try:
            name = mod.find(sig)
        except KeyError:
            rep.incomplete('conv:' + tag, 'conversion-kernel', '', 'function not found: ' + sig)
            continue
        r = kprove.prove(mod, name, ins, [(post, 0)], spec, in_modes=modes, seed=seed)
        ok = kcheck.record(rep, 'conv:' + tag, 'conversion-kernel', site_of(mod, name), r, '%s: %s' % (tag, what))
        if ok:
            rep.sample(dict(conversion=tag, cells=r.cells, output='canonical' if r.max_out < P else 'raw 64-bit'))
    # value-returning overloads forward to the two-argument forms
    wmod = front.module('avx2')
    for sig, src in (('Goldilocks::fromU64(unsigned long)', 'in1'), ('Goldilocks::toU64(%s const&)' % E, None)):
        try:
            name = wmod.find(sig)
            ctx = contracts.Ctx()
            ctx.symbolic_canon = True
            summ, _ = contracts.wrapper_summaries(wmod, ctx)
            eff = harness.run_routine(wmod, name, summ)
            if src:
                ok = isinstance(eff.ret, Poly) and eff.ret == Poly.var(src)
            else:
                ok = isinstance(eff.ret, Poly) and list(eff.ret.vars()) == ['canon{in1[0]}']
            (rep.ok if ok else rep.refute)('conv:' + sig, 'conversion-forwarding', site_of(wmod, name), 'returns %s' % (eff.ret,))
        except (KeyError, Incomplete, IRError, Sink) as e:
            rep.incomplete('conv:' + sig, 'conversion-forwarding', '', str(e))


def predicates(rep, seed=0):
    mod = front.module('avx2')
    x = Poly.var('in1[0]')
    specs = [('equal', 'Goldilocks::equal(%s const&, %s const&)' % (E, E), (x - Poly.var('in2[0]')).modp(), 'in1 = in2 (mod p)'),
             ('isZero', 'Goldilocks::isZero(%s const&)' % E, x, 'in1 = 0 (mod p)'),
             ('isOne', 'Goldilocks::isOne(%s const&)' % E, (x - 1).modp(), 'in1 = 1 (mod p)'),
             ('isNegone', 'Goldilocks::isNegone(%s const&)' % E, (x + 1).modp(), 'in1 = -1 (mod p)'),
             ('operator==', 'operator==(%s const&, %s const&)' % (E, E), None, 'in1 = in2 (mod p)')]
    for tag, sig, want, text in specs:
        try:
            name = mod.find(sig)
        except KeyError:
            rep.incomplete('pred:' + tag, 'predicate-residue-only', '', 'not found')
            continue

        def factory(ctx, name=name):
            s_, _ = contracts.wrapper_summaries(mod, ctx)
            s_.pop(name, None)       # the predicate under analysis is interpreted (or decided in kernel mode), never summarised
            return s_

        def setup(summ, opts):
            return harness.run_routine(mod, name, summ, opts=opts)
        try:
            leaves = explore_predicate(mod, name, factory, lambda s_, o: setup(s_, o).ret)
            ps = harness.describe(mod, name)
            if want is None:
                want_ = (Poly.var('%s[0]' % ps[0].name) - Poly.var('%s[0]' % ps[1].name)).modp()
            else:
                want_ = want
            keys = {want_.key(), (-want_).modp().key()}
            good = len(leaves) == 2 and all(len(a) == 1 and list(a)[0] in keys and bool(r & 1) == list(a.values())[0] for a, r in leaves)
            (rep.ok if good else rep.refute)('pred:' + tag, 'predicate-residue-only', site_of(mod, name),
                                             '%s is exactly the residue test %s (depends on the operands only through their canonical values)' % (tag, text)
                                             if good else '%s is not the residue test %s: paths %r' % (tag, text, [(list(a.values()), r) for a, r in leaves]))
        except (Incomplete, IRError, Sink) as e:
            if 'outside a contracted kernel' in str(e) or 'data-dependent comparison on field values' in str(e):
                # the predicate does raw integer arithmetic on the representations: decide it on exact integers instead
                smod = front.module('avx2', sroa=True)
                ps = harness.describe(mod, name)
                two = len(ps) == 2
                cst = {'isOne': 1, 'isNegone': P - 1}.get(tag, 0)
                cells = [(0, 0, 'a', 'u64')] + ([(1, 0, 'b', 'u64')] if two else [])
                ex = (lambda A: A['a'] - A['b']) if two else (lambda A, c_=cst: A['a'] - c_)
                r = kprove.prove_predicate(smod, smod.find(sig), len(ps), cells, ex, seed=seed)
                kcheck.record(rep, 'pred:' + tag, 'predicate-kernel', site_of(mod, name), r,
                              '%s on raw representations is the residue test %s for all 64-bit operands' % (tag, text))
            else:
                rep.incomplete('pred:' + tag, 'predicate-residue-only', site_of(mod, name), str(e))


def explore_mpz(mod, name, build_args, maxpaths=64):
    """all paths of a conversion routine over the undecided sign / comparison outcomes of its big-integer values"""
    leaves = []
    work = [{}]
    n = 0
    while work:
        dec = work.pop()
        n += 1
        if n > maxpaths:
            raise Incomplete('more than %d big-integer paths' % maxpaths)
        W = mpzmodel.MpzWorld(dec)
        ctx = contracts.Ctx()
        ctx.symbolic_canon = True
        summ, _ = contracts.wrapper_summaries(mod, ctx)
        summ.update(mpzmodel.summaries(W))
        I = Interp(mod, summ, {'summ_re': [(r, mpzmodel.noop) for r in mpzmodel.NOOP_RE], 'decide': mpzmodel.decide_hook(W), 'symbolic_trunc': mpzmodel.trunc_hook(W),
                              'symbolic_binop': mpzmodel.binop_hook(W)})
        W.interp = I
        args, regs = build_args(I, W)
        try:
            ret = I.call(name, args)
            leaves.append((dec, W, I, regs, ret, None))
        except mpzmodel.NeedDecision as nd:
            for o in nd.options:
                d2 = dict(dec)
                d2[nd.key] = o
                work.append(d2)
        except Sink as e:
            leaves.append((dec, W, I, regs, None, e))
    return leaves


def check_into_field(rep, mod, tag, sig, scalar):
    """fromString / fromScalar: on every path the stored value is congruent to the converted integer X and is a non-negative 64-bit value"""
    try:
        name = mod.find(sig)
    except KeyError:
        rep.incomplete('mpz:' + tag, 'R-MPZ', '', 'not found: ' + sig)
        return
    site = site_of(mod, name)

    def build(I, W):
        res = Region('result', 'param', extent=8, elem='field')
        src = Region('in1', 'param', extent=64, elem='any')
        if scalar:
            # the mpz_class argument holds the arbitrary integer X
            W.bounds['X'] = (-INF, INF)
            W.vals[(src, 0)] = mpzmodel.AZ(Poly.var('X'), -INF, INF)
            return [Ptr(res, 0), Ptr(src, 0)], res
        # the radix is any of 2..36 (a symbol with that range)
        W.bounds['RDX'] = (2, 36)
        return [Ptr(res, 0), Ptr(src, 0), Poly.var('RDX')], res
    try:
        leaves = explore_mpz(mod, name, build)
    except (Incomplete, IRError) as e:
        rep.incomplete('mpz:' + tag, 'R-MPZ', site, str(e))
        return
    bad = []
    for dec, W, I, res, ret, sink in leaves:
        path = ' and '.join(W.trace) or 'any X'
        if sink is not None:
            bad.append('path [%s] ends in %s' % (path, sink))
            continue
        for ok, text, loc in W.obligations:
            if not ok:
                bad.append('path [%s]: %s (%s:%s)' % (path, text, front.rel(loc[0]), loc[1]))
        v = I.mem.get((res, 0))
        if v is None:
            bad.append('path [%s]: result is not written' % path)
            continue
        r_ = W.residue(as_poly(v[0]) if not isinstance(v[0], FV) else v[0].nf)
        if r_ != Poly.var('X'):
            bad.append('path [%s]: stored value is congruent to %s, not to the converted integer X' % (path, r_))
    if bad:
        rep.refute('mpz:' + tag, 'R-MPZ', site, '; '.join(bad[:3]))
    else:
        rep.ok('mpz:' + tag, 'R-MPZ', site, '%d sign paths: the stored value is X mod p, taken from a non-negative value below 2^64, for every integer X' % len(leaves))
        rep.sample(dict(conversion=tag, paths=[' and '.join(l[1].trace) or 'any X' for l in leaves]))


def vrange(W):
    return W.bounds.get('V', (0, P - 1))


def check_out_of_field(rep, mod, tag, sig, bits):
    """toS64 / toS32 over the canonical value V of the element"""
    try:
        name = mod.find(sig)
    except KeyError:
        rep.incomplete('mpz:' + tag, 'R-MPZ', '', 'not found: ' + sig)
        return
    site = site_of(mod, name)
    half = (P - 1) // 2

    def build(I, W):
        res = Region('result', 'param', extent=8, elem='int')
        src = Region('in1', 'param', extent=8, elem='field')
        W.bounds['V'] = (0, P - 1)
        return [Ptr(res, 0), Ptr(src, 0)], res
    # toU64 of the operand is the symbol V in [0,p) (its contract is proved above)
    leaves = []
    try:
        def build2(I, W):
            a, res = build(I, W)
            tu = mod.find('Goldilocks::toU64(%s const&)' % E)
            I.summ[tu] = lambda I_, args, ins: Poly.var('V')
            return a, res
        leaves = explore_mpz(mod, name, build2)
    except (Incomplete, IRError) as e:
        rep.incomplete('mpz:' + tag, 'R-MPZ', site, str(e))
        return
    bad = []
    V = Poly.var('V')
    for dec, W, I, res, ret, sink in leaves:
        lo, hi = vrange(W)
        path = 'V in [%s, %s]' % (lo, hi)
        if lo > hi:
            continue        # infeasible combination of outcomes
        if sink is not None:
            bad.append('%s: ends in %s' % (path, sink))
            continue
        for ok, text, loc in W.obligations:
            if not ok:
                bad.append('%s: %s' % (path, text))
        v = I.mem.get((res, 0))
        val = as_poly(v[0]) if v is not None else None
        if bits == 64:
            want = V if hi <= half else (V - P if lo > half else None)
            if want is None:
                bad.append('%s: the path does not separate V <= (p-1)/2 from V > (p-1)/2' % path)
            elif val is None or val != want:
                bad.append('%s: result is %s, centred value is %s' % (path, val, want))
        else:
            acc_lo, acc_hi = (1 << 31) - 1, P - (1 << 31)       # accepted: V <= 2^31-1 or V >= p-2^31
            accepted = bool(ret & 1) if isinstance(ret, int) else None
            inside = hi <= acc_lo or lo >= acc_hi
            outside = lo > acc_lo and hi < acc_hi
            if accepted is None:
                bad.append('%s: success flag is not decided' % path)
            elif accepted and not inside:
                w = lo if lo > acc_lo else hi
                bad.append('%s: reports success although V = %d is not the image of a 32-bit integer' % (path, w))
            elif not accepted and not outside:
                w = acc_hi if lo <= acc_hi <= hi else (acc_lo if lo <= acc_lo <= hi else lo)
                bad.append('%s: reports failure although V = %d (centred value %d) lies in [-2^31, 2^31)' % (path, w, w if w <= half else w - P))
            elif accepted:
                want = V if hi <= acc_lo else V - P
                # the result is an int32: the stored cell is the low 32 bits of the signed value
                if val is None or val != want:
                    bad.append('%s: result is %s, centred value is %s' % (path, val, want))
    if bad:
        rep.refute('mpz:' + tag, 'R-MPZ', site, '; '.join(bad[:3]))
    else:
        rep.ok('mpz:' + tag, 'R-MPZ', site, '%d paths over the canonical value V: %s' % (
            len(leaves), 'result = V if V <= (p-1)/2 else V - p (centred lift), get_si operands fit' if bits == 64 else
            'success exactly for V in [0,2^31) or [p-2^31,p), result = centred value'))
        rep.sample(dict(conversion=tag, paths=['V in [%s,%s]' % vrange(l[1]) for l in leaves]))


def round_trips(rep):
    """corollaries of the range facts above (arithmetic on the interval end points)"""
    half = (P - 1) // 2
    facts = [
        ('toU64(fromU64(x)) = x for x < p', 'fromU64 stores x unchanged; toU64 is the identity on [0,p)', True),
        ('toS64(fromS64(x)) = x for |x| <= (p-1)/2', 'fromS64 yields the canonical residue of x; the centred lift of a residue with |x| <= %d is x' % half, half < (1 << 63)),
        ('toS32(fromS32(x)) = (x, true) for every int32 x', 'fromS32 yields the canonical residue; its centred value is x in [-2^31, 2^31), exactly the accepted set',
         (1 << 31) - 1 < P - (1 << 31)),
    ]
    for t, why, ok in facts:
        (rep.ok if ok else rep.refute)('roundtrip:' + t, 'round-trip-corollary', 'src/goldilocks_base_field_tools.hpp', why)


def run(rep, tier, seed):
    rep.rule_text = ('kernel mode on fromU64/fromS64/fromS32/toU64 (sign boxes, exact wrap analysis, canonical outputs); predicates explored over their '
                     'atomic residue tests (depend on operands only through canonical values); R-MPZ: the GMP calls behind fromString, fromScalar, '
                     'toS64, toS32 are interpreted on abstract big integers (symbol + interval + inherited residue, truncating remainder with the sign '
                     'of the dividend, get_ui/get_si obligations), every path over undecided signs and comparisons is explored and compared with the '
                     'specification on its interval; round trips as corollaries')
    kernel_conversions(rep, seed)
    predicates(rep, seed)
    mod = front.module('avx2')
    check_into_field(rep, mod, 'fromString', 'Goldilocks::fromString(%s&, %s const&, int)' % (E, STR), scalar=False)
    check_into_field(rep, mod, 'fromScalar', 'Goldilocks::fromScalar(%s&, %s const&)' % (E, MPZ), scalar=True)
    check_out_of_field(rep, mod, 'toS64', 'Goldilocks::toS64(long&, %s const&)' % E, 64)
    check_out_of_field(rep, mod, 'toS32', 'Goldilocks::toS32(int&, %s const&)' % E, 32)
    round_trips(rep)
    rep.note('NOT DECIDED: string parsing itself (mpz_init_set_str for radix 2..36) and toString formatting are trusted GMP behaviour')
    rep.assumptions += ['GMP entry points behave as documented (mpz_tdiv_r_ui truncates towards zero, get_ui returns the absolute value of the low limb)',
                        'USE_MONTGOMERY == 0 as built']
    rep.trusted = ['clang 14 lowering incl. gmpxx.h expression templates', 'glv interpreter', 'abstract GMP model glv/mpzmodel.py']
