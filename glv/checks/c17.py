"""C17: strided/offset/broadcast base-field wrappers and bulk copies move the right data."""
import re
from .. import front, contracts, harness, wrapcheck
from ..interp import Incomplete, Sink
from ..ir import IRError
from ..specs import base_spec
from ..poly import Poly, FV

LEVEL = 'proof'
PAT = r'^Goldilocks::(copy|add|sub|mul)_(avx512|avx|batch)\('
FLOORS = {'avx2': 109, 'avx512': 160}    # overloads present on the pinned tree (counted by this check)


def specfn(dem, params):
    w, r, d = base_spec.spec(dem, params)
    return w, r, None, d


def run(rep, tier, seed):
    rep.rule_text = ('every Goldilocks::{copy,add,sub,mul}_{batch,avx,avx512} overload is interpreted abstractly on symbolic operands, '
                     'strides and index arrays (kernels replaced by their contracts); every written cell must equal the value the '
                     'signature-derived specification designates, the write set must be exactly the designated cells, reads must stay '
                     'inside the designated cells, and every kernel precondition must hold at its call site')
    nfun = 0
    for cfg in ('avx2', 'avx512'):
        mod = front.module(cfg)
        names = mod.find_re(PAT)
        kernel_sigs = {c['sig'] for c in contracts.FIELD}
        names = [n for n in names if mod.dem[n] not in kernel_sigs]
        rep.floor('overloads[%s]' % cfg, len(names), FLOORS[cfg])
        for n in names:
            nfun += 1
            wrapcheck.check_overload(rep, mod, cfg, n, specfn)
    rep.cov['functions_analysed'] = nfun
    rep.cov['configs'] = ['avx2', 'avx512']
    rep.trusted = ['clang 14 front end and -O0 lowering of the wrappers', 'glv abstract interpreter (IR subset semantics)',
                   'kernel contracts (proved separately by C01/C02/C11)', 'signature grammar of glv/specs/base_spec.py']
