"""C17: strided/offset/broadcast base-field wrappers and bulk copies move the right data."""
import re
from .. import front, contracts, harness, wrapcheck
from ..interp import Incomplete, Sink
from ..ir import IRError
from ..specs import base_spec
from ..poly import Poly, FV
from ..ir import IRError

LEVEL = 'proof'
PAT = r'^Goldilocks::(copy|add|sub|mul)_(avx512|avx|batch)\('
FLOORS = {'avx2': 109, 'avx512': 160}    # overloads present on the pinned tree (counted by this check)


def specfn(dem, params):
    w, r, d = base_spec.spec(dem, params)
    return w, r, None, d


def run(rep, tier, seed):
    rep.rule_text = ('every Goldilocks::{copy,add,sub,mul}_{batch,avx,avx512} overload is interpreted abstractly on symbolic operands, '
                     'strides and index arrays (kernels replaced by their contracts); every written cell must equal the value the '
                     'signature-derived specification designates, the write set must be exactly the designated cells, reads must stay '
                     'inside the designated cells, and every kernel precondition must hold at its call site')
    nfun = 0
    nalias = 0
    for cfg in ('avx2', 'avx512'):
        mod = front.module(cfg)
        names = mod.find_re(PAT)
        kernel_sigs = {c['sig'] for c in contracts.FIELD}
        names = [n for n in names if mod.dem[n] not in kernel_sigs]
        rep.floor('overloads[%s]' % cfg, len(names), FLOORS[cfg])
        for n in names:
            nfun += 1
            wrapcheck.check_overload(rep, mod, cfg, n, specfn)
            try:
                hyps = base_spec.inplace_hyps(mod.dem[n], harness.describe(mod, n))
            except Incomplete:
                hyps = []
            for h in hyps:
                nalias += 1
                wrapcheck.check_overload(rep, mod, cfg, n, specfn, alias=h, sample=False)
    rep.cov['in_place_hypotheses'] = nalias
    rep.floor('same-shape in-place hypotheses', nalias, 76)
    # parallel copy / zero helpers: exactly `size` elements for every size and thread-count argument (bounded tier;
    # sequential-semantics IR here, the outlined OpenMP IR is analysed under C12)
    from ..interp import Incomplete as _Inc, Sink as _Sink
    mod = front.module('avx2', sroa=True)
    sizes = list(range(0, 66)) + [100, 127, 128, 129, 255, 256, 257] if tier == 'quick' else list(range(0, 300)) + [1000, 1023, 1024, 1025, 4097]
    npc = 0
    for fname, hasrc in (('parcpy', True), ('parSetZero', False)):
        names = harness.family(mod, r'^Goldilocks::%s\(' % fname)
        rep.floor(fname, len(names), 1)
        for size in sizes:
            for nt in (-3, -1, 0, 1, 2, 3, 4, 5, 7, 8, 9, 16, 64, 100):
                npc += 1
                tag = 'par:%s size=%d num_threads=%d' % (fname, size, nt)
                site = 'src/goldilocks_base_field.cpp'
                try:
                    ext = {'dst': 8 * size}
                    if hasrc:
                        ext['src'] = 8 * size
                    # both relative placements of the two buffers (an overlap test that orders addresses takes different paths)
                    eff = harness.run_routine(mod, names[0], {}, values={'size': size, 'num_threads_copy': nt & 0xFFFFFFFF}, extents=ext,
                                              opts={'layout_reverse': bool((size + nt) & 1)})
                except _Sink as e:
                    rep.refute(tag, 'parcopy-bounded', wrapcheck.sink_site(e, site), str(e))
                    continue
                except (_Inc, IRError) as e:
                    rep.incomplete(tag, 'parcopy-bounded', site, str(e))
                    continue
                bad = []
                for i in range(size):
                    v = eff.writes.get(('dst', 8 * i))
                    if hasrc:
                        ok = isinstance(v, FV) and v.nf == Poly.var('src[%d]' % i)
                    else:
                        ok = v == 0
                    if not ok:
                        bad.append('dst[%d] = %s' % (i, v))
                        break
                if len([k for k in eff.writes if k[0] == 'dst']) != size:
                    bad.append('%d cells written, size is %d' % (len(eff.writes), size))
                if hasrc and {k for k in eff.reads if k[0] == 'src'} != {('src', 8 * i) for i in range(size)}:
                    bad.append('source read set is not exactly size elements')
                if bad:
                    rep.refute(tag, 'parcopy-bounded', site, '; '.join(bad))
                else:
                    rep.ok(tag, 'parcopy-bounded', site, 'exactly %d elements transferred, nothing else read or written' % size)
    rep.cov['parcopy_configurations'] = npc
    rep.cov['functions_analysed'] = nfun
    rep.cov['configs'] = ['avx2', 'avx512']
    rep.trusted = ['clang 14 front end and -O0 lowering of the wrappers', 'glv abstract interpreter (IR subset semantics)',
                   'kernel contracts (proved separately by C01/C02/C11)', 'signature grammar of glv/specs/base_spec.py']
