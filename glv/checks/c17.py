"""C17: strided/offset/broadcast base-field wrappers and bulk copies move the right data."""
import re
from .. import front, contracts, harness
from ..interp import Incomplete, Sink
from ..ir import IRError
from ..specs import base_spec
from ..poly import Poly, FV

LEVEL = 'proof'
PAT = r'^Goldilocks::(copy|add|sub|mul)_(avx512|avx|batch)\('
FLOORS = {'avx2': 109, 'avx512': 160}    # overloads present on the pinned tree (counted by this check)


def site_of(mod, name):
    f, l = mod.fn_loc(name)
    return '%s:%s' % (front.rel(f), l)


def alias_sets(params):
    """aliasing hypotheses the signature permits: contiguous Element arrays / registers of equal kind"""
    ps = [p for p in params if not p.is_this]
    names = [p.name for p in ps]
    if any(n.startswith('offset') or n.startswith('stride') for n in names):
        return []
    out = ps[0]
    ins = [p for p in ps[1:] if p.irty[0] == 'p']
    same = lambda p, q: p.dty.replace(' const', '').replace('&', '*') == q.dty.replace(' const', '').replace('&', '*')
    hs = []
    for p in ins:
        if same(out, p):
            hs.append({p.name: out.name})
    if len(ins) == 2 and same(ins[0], ins[1]):
        hs.append({ins[1].name: ins[0].name})
        if same(out, ins[0]):
            hs.append({ins[0].name: out.name, ins[1].name: out.name})
    return hs


def check_overload(rep, mod, cfg, name, alias=None):
    dem = mod.dem[name]
    tag = '%s/%s%s' % (cfg, dem, '' if not alias else ' alias=' + ','.join('%s=%s' % kv for kv in sorted(alias.items())))
    site = site_of(mod, name)
    ctx = contracts.Ctx()
    summ, _ = contracts.wrapper_summaries(mod, ctx)
    summ.pop(name, None)       # the routine under analysis is interpreted, not summarised
    try:
        eff = harness.run_routine(mod, name, summ, alias=alias)
    except (Incomplete, IRError) as e:
        rep.incomplete('value:' + tag, 'wrapper-value', site, str(e))
        return
    except Sink as e:
        rep.refute('safety:' + tag, 'wrapper-safety', '%s:%s' % (front.rel(e.loc[0]), e.loc[1]) if e.loc and e.loc[0] else site,
                   '%s (in %s)' % (e, ' <- '.join(e.stack[:3])))
        return
    try:
        exp_w, exp_r, desc = base_spec.spec(dem, eff.params)
    except base_spec.NoSpec as e:
        rep.incomplete('value:' + tag, 'wrapper-value', site, 'signature outside the grammar: %s' % e)
        return
    got = {}
    for k, v in eff.writes.items():
        if isinstance(v, int):
            v = FV.const(v)
        if not isinstance(v, FV):
            rep.incomplete('value:' + tag, 'wrapper-value', site, 'non-field value %r written to %s' % (v, k))
            return
        got[k] = v.nf
    bad = []
    for k in sorted(set(got) | set(exp_w), key=str):
        g, e = got.get(k), exp_w.get(k)
        if g is None:
            bad.append('designated output cell %s+%s is not written' % k)
        elif e is None:
            bad.append('cell %s+%s is written but not designated (value %s)' % (k[0], k[1], g))
        elif g != e:
            bad.append('cell %s+%s holds %s, specification %s' % (k[0], k[1], g, e))
    if bad:
        rep.refute('value:' + tag, 'wrapper-value', site, '; '.join(bad[:3]) + (' (+%d more)' % (len(bad) - 3) if len(bad) > 3 else ''))
    else:
        rep.ok('value:' + tag, 'wrapper-value', site, desc)
    extra = sorted((k for k in eff.reads if k not in exp_r and k not in exp_w), key=str)
    if extra:
        rep.refute('reads:' + tag, 'wrapper-footprint', site, 'reads outside the designated cells: %s' % extra[:4])
    else:
        rep.ok('reads:' + tag, 'wrapper-footprint', site, '%d cells read' % len(eff.reads))
    if ctx.violations:
        v = ctx.violations[0]
        rep.refute('pre:' + tag, 'callsite-precondition', site, '%s operand %s lane %d: %s' % (v['callee'], v['operand'], v['lane'], v['detail']))
    else:
        rep.ok('pre:' + tag, 'callsite-precondition', site, '%d kernel call sites' % len(ctx.sites))
    if not alias:
        rep.sample(dict(config=cfg, function=dem, site=site, spec=desc,
                        cell=str(sorted(exp_w, key=str)[0]), value=str(exp_w[sorted(exp_w, key=str)[0]])))
    for a in eff.interp.assumptions:
        if a not in rep.assumptions:
            rep.assumptions.append(a)


def run(rep, tier, seed):
    rep.rule_text = ('every Goldilocks::{copy,add,sub,mul}_{batch,avx,avx512} overload is interpreted abstractly on symbolic operands, '
                     'strides and index arrays (kernels replaced by their contracts); every written cell must equal the value the '
                     'signature-derived specification designates, the write set must be exactly the designated cells, reads must stay '
                     'inside the designated cells, and every kernel precondition must hold at its call site; repeated under each '
                     'aliasing hypothesis of the unit-stride overloads')
    nfun = 0
    for cfg in ('avx2', 'avx512'):
        mod = front.module(cfg)
        names = mod.find_re(PAT)
        kernel_sigs = {c['sig'] for c in contracts.FIELD}
        names = [n for n in names if mod.dem[n] not in kernel_sigs]
        rep.floor('overloads[%s]' % cfg, len(names), FLOORS[cfg])
        for n in names:
            nfun += 1
            check_overload(rep, mod, cfg, n)
            try:
                ps = harness.describe(mod, n)
            except Incomplete:
                continue
            for al in alias_sets(ps):
                check_overload(rep, mod, cfg, n, al)
    rep.cov['functions_analysed'] = nfun
    rep.cov['configs'] = ['avx2', 'avx512']
    rep.trusted = ['clang 14 front end and -O0 lowering of the wrappers', 'glv abstract interpreter (IR subset semantics)',
                   'kernel contracts (proved separately by C01/C02/C11)', 'signature grammar of glv/specs/base_spec.py']
