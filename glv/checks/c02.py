"""C02: AVX2 lane kernels equal the scalar field operation in every lane, for every input allowed by their contracts."""
from .. import kcheck

LEVEL = 'proof'


def run(rep, tier, seed):
    rep.rule_text = ('kernel mode: each contracted AVX2 kernel is interpreted on its SROA-normalised IR with exact integer polynomials over 32-bit limb '
                     'symbols, carry/borrow trace partitioning and per-cell decided comparisons; per lane and per precondition box the output must equal '
                     'the field operation mod p (exact 128/72-bit products over Z with no intermediate wrap) and stay inside the contract post-range; '
                     'failing cells are confirmed by an exact-arithmetic witness over the cell constraints')
    n = 0
    for cfg in (('avx2', 'avx512') if tier == 'thorough' else ('avx2',)):
        n += kcheck.prove_field_contracts(rep, cfg, 4, seed=seed)
    rep.floor('contracted AVX2 kernels', n, 18 if tier == "quick" else 36)
    rep.trusted = ['clang 14 lowering of the intrinsics to generic IR (add/sub/mul/icmp/select/shufflevector, psrli/pslli)',
                   'opt-14 sroa,early-cse', 'glv kernel-mode semantics of that IR vocabulary']
    rep.assumptions += ['lanes are analysed one at a time; a value of another lane flowing into the analysed lane is reported as incomplete']
