"""C12: parallel regions are race-free; results are independent of the number of threads and of the schedule."""
import os, itertools
from .. import front, harness, ompcheck, nttcheck
from ..interp import Incomplete, Sink, Interp
from ..ir import IRError
from ..wrapcheck import site_of, sink_site
from .c07 import PermTable, perm_summaries
from . import c08

LEVEL = 'proof'


def outlined_rules(rep, cfg):
    """static rules on every outlined parallel region of the -fopenmp IR (all shapes)"""
    mod = front.module(cfg, omp=True, sroa=True)
    forks = []
    for name in mod.funcs:
        if name.startswith('.omp_outlined.') or not any(k in mod.dem.get(name, '') for k in ('Goldilocks', 'NTT_', 'Poseidon')):
            continue
        fn = mod.fn(name)
        for lab, ins in fn.instrs():
            if ins.op in ('call', 'invoke') and ins.a[0][0] == 'g' and ins.a[0][1] == '@__kmpc_fork_call':
                tgt = ins.a[3]
                while tgt[0] == 'ccast':
                    tgt = tgt[3]
                forks.append((name, ins, tgt[1][1:] if tgt[0] == 'g' else None))
    rep.floor('parallel regions[%s]' % cfg, len(forks), 16 if cfg == 'avx2' else 20)
    # orphaned worksharing / barrier constructs: they bind to whatever team the *caller* happens to be in, so the result
    # would depend on the caller's team size
    for name in mod.funcs:
        if name.startswith('.omp_outlined.') or not any(k in mod.dem.get(name, '') for k in ('Goldilocks', 'NTT_', 'Poseidon')):
            continue
        for lab, ins in mod.fn(name).instrs():
            if ins.op in ('call', 'invoke') and ins.a[0][0] == 'g':
                c = ins.a[0][1][1:]
                if c.startswith('__kmpc_for_static_init') or c.startswith('__kmpc_dispatch_init') or c in ('__kmpc_barrier', '__kmpc_single', '__kmpc_master'):
                    f, l = mod.loc(ins.dbg)
                    rep.refute('orphan:%s/%s@%s' % (cfg, mod.dem.get(name, name).split('(')[0], l), 'omp-region-structure', '%s:%s' % (front.rel(f), l),
                               'worksharing construct (%s) outside any parallel region of this function: it binds to the caller\'s team, so the result depends on the team the caller is in' % c)
    # constructs that make the result depend on which thread runs what, or that the one-abstract-thread model cannot follow:
    # reported as ANALYSIS-INCOMPLETE (the footprint tier still reports any actual conflict as a violation)
    bad_calls = ('omp_get_thread_num', 'omp_get_num_threads', '__kmpc_reduce', '__kmpc_reduce_nowait', '__kmpc_critical',
                 '__kmpc_atomic', '__kmpc_single', '__kmpc_master', '__kmpc_ordered')
    for caller, ins, out in forks:
        f, l = mod.loc(ins.dbg)
        site = '%s:%s' % (front.rel(f), l)
        tag = 'region:%s/%s@%s' % (cfg, mod.dem.get(caller, caller).split('(')[0], l)
        if out is None or out not in mod.funcs:
            rep.incomplete(tag, 'omp-region-structure', site, 'microtask of the fork call is not a known function')
            continue
        # transitive closure of outlined wrappers (clang emits .omp_outlined. -> .omp_outlined._debug__)
        todo = [out]
        seen = set()
        probs = []
        unsup = []
        nstores = 0
        while todo:
            g = todo.pop()
            if g in seen:
                continue
            seen.add(g)
            gf = mod.fn(g)
            captured = {pn for (t, pn) in gf.params[2:] if pn} if g.startswith('.omp_outlined.') else set()
            derived = set(captured)
            for lab, i2 in gf.instrs():
                if i2.op in ('getelementptr', 'bitcast') and i2.a and i2.a[0][0] == 'r' and i2.a[0][1] in derived and g.startswith('.omp_outlined.'):
                    # address arithmetic on the captured variable itself (not on a pointer loaded from it)
                    derived.add(i2.dst)
                if i2.op == 'store' and g.startswith('.omp_outlined.'):
                    nstores += 1
                    if i2.a[1][0] == 'r' and i2.a[1][1] in derived:
                        probs.append('shared variable %s is written inside the region (%s:%s)' % (i2.a[1][1], front.rel(mod.loc(i2.dbg)[0]), mod.loc(i2.dbg)[1]))
                if i2.op in ('atomicrmw', 'cmpxchg', 'fence'):
                    unsup.append('atomic operation in the region')
                if i2.op in ('call', 'invoke') and i2.a[0][0] == 'g':
                    c = i2.a[0][1][1:]
                    if c in bad_calls:
                        unsup.append('call of %s in the region: thread identity / reduction / critical sections are outside the one-abstract-thread model' % c)
                    if c.startswith('__kmpc_for_static_init'):
                        sk = i2.a[3]
                        if sk[0] != 'i' or sk[1] not in (33, 34):
                            unsup.append('static-init schedule kind %r is not modelled' % (sk,))
                    if c.startswith('.omp_outlined.'):
                        todo.append(c)
        if probs:
            rep.refute(tag, 'omp-region-structure', site, '; '.join(sorted(set(probs))[:3]))
        elif unsup:
            rep.incomplete(tag, 'omp-region-structure', site, '; '.join(sorted(set(unsup))[:3]))
        else:
            rep.ok(tag, 'omp-region-structure', site, 'no captured variable written, no thread-identity / reduction / dynamic-schedule construct, static schedule')
    return len(forks)


def report_regions(rep, tag, summaries, seen_sites):
    ok = True
    for site, caller, iters, confl, pre in summaries:
        seen_sites.setdefault(site, 0)
        seen_sites[site] += 1
        if confl:
            cell, kind, its = confl[0]
            rep.refute('race:%s @%s' % (tag, site), 'omp-iteration-footprints', site,
                       '%s conflict on %s+%s between iterations %s (%d conflicting cells)' % (kind, cell[0], cell[1], its, len(confl)))
            ok = False
        if pre:
            rep.refute('race:%s @%s (outside iterations)' % (tag, site), 'omp-iteration-footprints', site,
                       'shared memory %s is written by region code that every team member executes' % (pre[:3],))
            ok = False
    return ok


def _ntt_worker(args):
    kind, cfgs = args
    R = nttcheck.Runner('avx2', omp=True)
    R1 = nttcheck.Runner('avx2', omp=True, opts={'omp_world': 'tid1'}) if ompcheck.uses_thread_identity('avx2') else None
    out = []
    for c in cfgs:
        try:
            r = R.run_transform(kind, *c) if kind in ('ntt', 'intt') else R.run_extend(*c)
            W = R.world(c[0], c[-1] if kind in ('ntt', 'intt') else c[7])[0]
            summ = ompcheck.summarize(W.I)
            if R1 is not None and any(s_[3] or s_[4] for s_ in summ):
                # a conflict in the one-thread world of a tree that asks for thread numbers: confirmed only if it is still there
                # between an iteration run as thread 0 and another run as thread 1 (thread-indexed scratch is private)
                try:
                    R1.run_transform(kind, *c) if kind in ('ntt', 'intt') else R1.run_extend(*c)
                except Exception:
                    pass
                W1 = R1.world(c[0], c[-1] if kind in ('ntt', 'intt') else c[7])[0]
                summ2 = ompcheck.cross_summarize(W.I, W1.I)
                if summ2 is None:
                    r = ('incomplete', 'footprints as thread 0 and as thread 1 do not line up (the region structure depends on the thread number)', None)
                else:
                    summ = summ2
        except Exception as e:
            r = ('incomplete', 'engine: %s: %s' % (type(e).__name__, str(e)[:200]), None)
            summ = []
        out.append((kind, c, r, summ))
    return out


def _merkle_worker(args):
    cfg, jobs = args
    mod = front.module(cfg, omp=True)
    out = []
    for j in jobs:
        variant, rows, cols, dim, b, nt = j
        pt = PermTable()
        S = perm_summaries(mod, pt)
        names = harness.family(mod, r'^PoseidonGoldilocks::%s\(' % variant)
        vals = {'num_cols': cols, 'num_rows': rows, 'nThreads': nt, 'dim': dim}
        if b is not None:
            vals['batch_size'] = b
        try:
            eff = harness.run_routine(mod, names[0], S, values=vals, extents={'tree': 8 * 4 * (2 * rows - 1), 'input': 8 * rows * cols * dim},
                                      opts={'omp_max_threads': 4})
            out.append((j, None, ompcheck.summarize(eff.interp)))
        except Sink as e:
            out.append((j, ('refuted', str(e)), []))
        except (Incomplete, IRError, IndexError) as e:
            out.append((j, ('incomplete', str(e)), []))
    return out


def run(rep, tier, seed):
    rep.rule_text = ('(1) every outlined parallel region of the -fopenmp IR: no captured (shared) variable is written, no thread-identity, reduction, atomic '
                     'or dynamic-schedule construct, schedule static - so absence of conflicting accesses implies independence of team size and schedule; '
                     '(2) bounded shapes, all data, all schedules: the region is interpreted with one abstract thread owning every chunk, each loop '
                     'iteration records its footprint on memory that is not private to the region; iterations must be pairwise free of write/write and '
                     'write/read overlaps, and region code outside the iterations must not write shared memory; results still equal the specification')
    n1 = outlined_rules(rep, 'avx2')
    # all sizes: a chunk / slice size that is narrowed (an explicit truncation, a 32-bit alignment mask on a 64-bit count) makes the
    # chunks stop covering the array for large sizes, differently for different thread counts (R-NARROW, shared with C18)
    from .. import rules as _rules
    _rules.rule_narrow(rep, family=r'^Goldilocks::(parcpy|parSetZero)\(')
    n2 = outlined_rules(rep, 'avx512')
    import multiprocessing as mp
    nproc = min(16, os.cpu_count() or 4)
    seen_sites = {}
    # transforms
    ncfg = nttcheck.ntt_configs('quick', seed)
    if tier == 'quick':
        ncfg = [c for i, c in enumerate(ncfg) if c[0] <= 16 and i % 3 == 0]
    ecfg = nttcheck.ext_configs('quick', seed)
    if tier == 'quick':
        ecfg = [c for i, c in enumerate(ecfg) if c[2] <= 16 and i % 4 == 0]
    # threshold-directed shapes (glv/thresholds.py) are kept in full, whatever the thinning above
    from .. import thresholds
    ths_n = thresholds.new_thresholds('ntt')
    xn = [c for c in thresholds.ntt_extra(ths_n, 'quick')[0] if c[1] <= 64]
    xe = [c for c in thresholds.ext_extra(ths_n, 'quick')[0] if c[2] <= 64]
    ncfg = ncfg + [c for c in xn if c not in ncfg]
    ecfg = ecfg + [c for c in xe if c not in ecfg]
    if ths_n:
        rep.note('threshold-directed shapes for new constants %s in the transform code: %d + %d configurations added' % (ths_n, len(xn), len(xe)))
    work = [(k, cf[i::nproc]) for k, cf in (('ntt', ncfg), ('intt', ncfg), ('ext', ecfg)) for i in range(nproc) if cf[i::nproc]]
    with mp.Pool(nproc) as pool:
        res = pool.map(_ntt_worker, work)
    ntr = 0
    for chunk in res:
        for kind, c, r, summ in chunk:
            ntr += 1
            d = nttcheck.describe_ntt(c) if kind in ('ntt', 'intt') else nttcheck.describe_ext(c)
            tag = '%s:%s' % (kind, d)
            if r is not None:
                st, msg, loc = r
                (rep.refute if st == 'refuted' else rep.incomplete)('result:' + tag, 'omp-result-under-outlined-ir', 'src/ntt_goldilocks.cpp', msg)
                continue
            if report_regions(rep, tag, summ, seen_sites):
                rep.ok('race:' + tag, 'omp-iteration-footprints', 'src/ntt_goldilocks.cpp',
                       '%d region instances, %d iterations, footprints pairwise disjoint; result equals the specification' % (
                           len(summ), sum(s_[2] for s_ in summ)))
    # Merkle builders
    rows_l = [1, 2, 4, 8] if tier == 'quick' else [1, 2, 4, 8, 16]
    cols_l = [0, 1, 5, 9] if tier == 'quick' else [0, 1, 4, 5, 9, 17]
    jobs = {'avx2': [], 'avx512': []}
    for variant, isb, only in c08.BUILDERS[:6]:
        cfg = only or 'avx2'
        for rows, cols, dim in itertools.product(rows_l, cols_l, [1, 3]):
            for b in ([3, 8] if isb else [None]):
                for nt in ((0, 3) if tier == 'quick' else (0, 1, 3, 7)):
                    jobs[cfg].append((variant, rows, cols, dim, b, nt))
    ths_p = thresholds.new_thresholds('poseidon')
    for variant, isb, only in c08.BUILDERS[:6]:
        cfg = only or 'avx2'
        for rows, cols, dim, b in thresholds.merkle_extra(ths_p, 'quick')[0]:
            if (b is not None) == bool(isb) and rows <= 64:
                jobs[cfg].append((variant, rows, cols, dim, b, 3))
    work = [(cfg, js[i::nproc]) for cfg, js in jobs.items() for i in range(nproc) if js[i::nproc]]
    with mp.Pool(nproc) as pool:
        res = pool.map(_merkle_worker, work)
    nm = 0
    for chunk in res:
        for j, r, summ in chunk:
            nm += 1
            tag = 'merkle:%s rows=%d cols=%d dim=%d batch=%s nThreads=%d' % j
            if r is not None:
                (rep.refute if r[0] == 'refuted' else rep.incomplete)('result:' + tag, 'omp-result-under-outlined-ir', 'src/poseidon_goldilocks.cpp', r[1])
                continue
            if report_regions(rep, tag, summ, seen_sites):
                rep.ok('race:' + tag, 'omp-iteration-footprints', 'src/poseidon_goldilocks.cpp',
                       '%d region instances, %d iterations, footprints pairwise disjoint' % (len(summ), sum(s_[2] for s_ in summ)))
    # parcpy / parSetZero
    mod = front.module('avx2', omp=True, sroa=True)
    npc = 0
    for fname, hasrc in (('parcpy', True), ('parSetZero', False)):
        names = harness.family(mod, r'^Goldilocks::%s\(' % fname)
        for size in (range(0, 41) if tier == 'quick' else list(range(0, 130)) + [255, 256, 257, 1000]):
            for nt in range(-1, 10):
                npc += 1
                tag = '%s size=%d num_threads=%d' % (fname, size, nt)
                try:
                    ext = {'dst': 8 * size}
                    if hasrc:
                        ext['src'] = 8 * size
                    eff = harness.run_routine(mod, names[0], {}, values={'size': size, 'num_threads_copy': nt & 0xFFFFFFFF}, extents=ext)
                except Sink as e:
                    rep.refute('result:' + tag, 'omp-result-under-outlined-ir', sink_site(e, 'src/goldilocks_base_field.cpp'), str(e))
                    continue
                except (Incomplete, IRError) as e:
                    rep.incomplete('result:' + tag, 'omp-result-under-outlined-ir', 'src/goldilocks_base_field.cpp', str(e))
                    continue
                w = {k for k in eff.writes if k[0] == 'dst'}
                if w != {('dst', 8 * i) for i in range(size)}:
                    rep.refute('result:' + tag, 'omp-result-under-outlined-ir', 'src/goldilocks_base_field.cpp',
                               '%d cells transferred, size is %d' % (len(w), size))
                    continue
                if report_regions(rep, tag, ompcheck.summarize(eff.interp), seen_sites):
                    rep.ok('race:' + tag, 'omp-iteration-footprints', 'src/goldilocks_base_field.cpp', 'chunks tile [0,size) exactly, disjoint')
    rep.cov['region_sites_exercised'] = len(seen_sites)
    rep.cov['region_instances'] = sum(seen_sites.values())
    rep.floor('region sites exercised by the bounded tier', len(seen_sites), 16)
    rep.sample(dict(regions_avx2=n1, regions_avx512=n2, transform_configs=ntr, merkle_configs=nm, parcpy_configs=npc,
                    sites=sorted(seen_sites)[:20]))
    rep.assumptions += ['footprints do not depend on field data (no data-dependent branch or address: such code is reported incomplete by the interpreter)',
                        'OpenMP static schedules distribute whole iterations; memory private to the region = objects created inside it',
                        'iteration-footprint tier bounded in shape']
    rep.trusted = ['clang 14 OpenMP outlining', 'glv interpreter', 'model of __kmpc_fork_call / __kmpc_for_static_init']
