"""LLVM-14 textual IR loader (typed pointers), pre-decoded for the abstract interpreters.

Only the subset clang 14 emits for this repository at -O0 (optionally after sroa/early-cse) is
understood; anything else raises IRError, which the checks turn into ANALYSIS-INCOMPLETE (exit 2).
Function bodies are decoded lazily (the unity module has ~2900 definitions, a check touches a few
hundred).
"""
import re, subprocess, bisect


class IRError(Exception):
    pass


TOK = re.compile(r'''
    c"(?:[^"\\]|\\.)*" | "(?:[^"\\]|\\.)*" |
    %"[^"]*" | %[\w.$\-]+ | @"[^"]*" | @[\w.$\-]+ | ![\w.]+ | !\{ | !" | \#\d+ |
    0x[0-9A-Fa-f]+ | -?\d+\.\d+(?:e[+\-]?\d+)? | -?\d+ |
    \.\.\. | [\w.]+ | [()\[\]{}<>,=*:!]
''', re.X)

ATTRS = {'noundef', 'nonnull', 'signext', 'zeroext', 'nocapture', 'readonly', 'writeonly', 'noalias', 'returned',
         'inreg', 'nest', 'immarg', 'readnone', 'nofree', 'swiftself', 'inalloca', 'noreturn', 'nounwind'}
ATTRS_ARG = {'dereferenceable', 'dereferenceable_or_null', 'sret', 'byval', 'align', 'byref', 'preallocated', 'elementtype'}
FLAGS = {'nuw', 'nsw', 'exact', 'inbounds', 'fast', 'nnan', 'ninf', 'nsz', 'arcp', 'contract', 'afn', 'reassoc', 'volatile'}
CASTS = {'bitcast', 'zext', 'sext', 'trunc', 'ptrtoint', 'inttoptr', 'fptoui', 'fptosi', 'uitofp', 'sitofp', 'fpext',
         'fptrunc', 'addrspacecast'}
BINOPS = {'add', 'sub', 'mul', 'udiv', 'sdiv', 'urem', 'srem', 'shl', 'lshr', 'ashr', 'and', 'or', 'xor', 'fadd', 'fsub',
          'fmul', 'fdiv', 'frem'}
FLOATS = {'double': 64, 'float': 32, 'half': 16, 'x86_fp80': 80, 'fp128': 128, 'bfloat': 16}


def tokenize(s):
    return TOK.findall(s)


class Cur:
    __slots__ = ('t', 'i')

    def __init__(s, toks, i=0):
        s.t = toks
        s.i = i

    def peek(s, k=0):
        j = s.i + k
        return s.t[j] if j < len(s.t) else None

    def next(s):
        v = s.t[s.i]
        s.i += 1
        return v

    def eat(s, tok):
        if s.peek() == tok:
            s.i += 1
            return True
        return False

    def expect(s, tok):
        if not s.eat(tok):
            raise IRError('expected %r at %r' % (tok, s.t[max(0, s.i - 3):s.i + 3]))

    def done(s):
        return s.i >= len(s.t)


def parse_type(c):
    tok = c.next()
    if tok == 'void':
        ty = ('void',)
    elif tok[0] == 'i' and tok[1:].isdigit():
        ty = ('i', int(tok[1:]))
    elif tok in FLOATS:
        ty = ('f', FLOATS[tok])
    elif tok == '<':
        if c.peek() == '{':
            c.next()
            fs = []
            if not c.eat('}'):
                while True:
                    fs.append(parse_type(c))
                    if c.eat('}'):
                        break
                    c.expect(',')
            c.expect('>')
            ty = ('lit', tuple(fs), True)
        else:
            n = int(c.next())
            c.expect('x')
            e = parse_type(c)
            c.expect('>')
            ty = ('v', n, e)
    elif tok == '[':
        n = int(c.next())
        c.expect('x')
        e = parse_type(c)
        c.expect(']')
        ty = ('a', n, e)
    elif tok == '{':
        fs = []
        if not c.eat('}'):
            while True:
                fs.append(parse_type(c))
                if c.eat('}'):
                    break
                c.expect(',')
        ty = ('lit', tuple(fs), False)
    elif tok[0] == '%':
        ty = ('s', tok)
    elif tok in ('metadata', 'label', 'token', 'opaque', 'ptr'):
        ty = (tok,)
    else:
        raise IRError('type? %r' % tok)
    while True:
        p = c.peek()
        if p == '*':
            c.next()
            ty = ('p', ty)
        elif p == '(':
            c.next()
            ps = []
            va = False
            if not c.eat(')'):
                while True:
                    if c.eat('...'):
                        va = True
                    else:
                        ps.append(parse_type(c))
                    if c.eat(')'):
                        break
                    c.expect(',')
            ty = ('fn', ty, tuple(ps), va)
        else:
            return ty


def skip_attrs(c):
    while True:
        p = c.peek()
        if p in ATTRS:
            c.next()
        elif p in ATTRS_ARG:
            c.next()
            if c.eat('('):
                d = 1
                while d:
                    t = c.next()
                    if t == '(':
                        d += 1
                    elif t == ')':
                        d -= 1
            elif p == 'align':
                c.next()
        else:
            return


def parse_value(c, ty):
    """value of known type ty -> operand tuple"""
    tok = c.next()
    ch = tok[0]
    if ch == '%':
        return ('r', tok)
    if ch == '@':
        return ('g', tok)
    if ch == '-' or ch.isdigit():
        if tok.startswith('0x'):
            return ('fl', tok)
        if '.' in tok:
            return ('fl', float(tok))
        return ('i', int(tok))
    if tok == 'null':
        return ('null',)
    if tok in ('undef', 'poison'):
        return ('undef',)
    if tok == 'zeroinitializer':
        return ('zero', ty)
    if tok == 'true':
        return ('i', 1)
    if tok == 'false':
        return ('i', 0)
    if tok == '<' or tok == '[' or tok == '{':
        close = {'<': '>', '[': ']', '{': '}'}[tok]
        packed = False
        if tok == '<' and c.peek() == '{':
            c.next()
            packed = True
            close = '}'
        el = []
        if not c.eat(close):
            while True:
                t = parse_type(c)
                el.append(parse_value(c, t))
                if c.eat(close):
                    break
                c.expect(',')
        if packed:
            c.expect('>')
        return ('agg', tuple(el))
    if tok.startswith('c"'):
        return ('str', tok)
    if tok == 'getelementptr':
        c.eat('inbounds')
        c.expect('(')
        bt = parse_type(c)
        c.expect(',')
        pt = parse_type(c)
        base = parse_value(c, pt)
        idx = []
        while c.eat(','):
            c.eat('inrange')
            it = parse_type(c)
            idx.append(parse_value(c, it))
        c.expect(')')
        return ('cgep', bt, base, tuple(idx))
    if tok in CASTS:
        c.expect('(')
        st = parse_type(c)
        v = parse_value(c, st)
        c.expect('to')
        dt = parse_type(c)
        c.expect(')')
        return ('ccast', tok, st, v, dt)
    if tok in BINOPS:
        while c.peek() in FLAGS:
            c.next()
        c.expect('(')
        t1 = parse_type(c)
        a = parse_value(c, t1)
        c.expect(',')
        t2 = parse_type(c)
        b = parse_value(c, t2)
        c.expect(')')
        return ('cbin', tok, t1, a, b)
    if tok == 'blockaddress':
        c.expect('(')
        c.next(); c.expect(','); c.next(); c.expect(')')
        return ('undef',)
    raise IRError('value? %r' % tok)


def parse_tv(c):
    t = parse_type(c)
    skip_attrs(c)
    return t, parse_value(c, t)


class Instr:
    __slots__ = ('op', 'dst', 'ty', 'a', 'x', 'dbg', 'text')

    def __init__(s, op, dst, ty, a, x, dbg, text):
        s.op = op      # opcode
        s.dst = dst    # '%name' or None
        s.ty = ty      # result / operand type (op dependent)
        s.a = a        # operand tuple
        s.x = x        # extra (op dependent)
        s.dbg = dbg    # !dbg id or None
        s.text = text

    def __repr__(s):
        return s.text


_DBG = re.compile(r', !dbg (!\d+)')
_MD_TAIL = re.compile(r'(, ![\w.]+ !\d+)+$')


def parse_instr(line):
    text = line
    m = _DBG.search(line)
    dbg = m.group(1) if m else None
    line = _MD_TAIL.sub('', line)
    toks = tokenize(line)
    c = Cur(toks)
    dst = None
    if len(toks) > 1 and toks[1] == '=':
        dst = c.next()
        c.next()
    op = c.next()
    if op == 'tail' or op == 'musttail' or op == 'notail':
        op = c.next()
    I = lambda ty, a, x=None: Instr(op, dst, ty, a, x, dbg, text)
    def _align():
        # trailing ", align N"
        a = None
        while c.eat(','):
            if c.peek() == 'align':
                c.next()
                a = int(c.next())
            else:
                break
        return a
    if op == 'alloca':
        c.eat('inalloca')
        ty = parse_type(c)
        n = None
        al = None
        if c.eat(','):
            if c.peek() == 'align':
                c.next()
                al = int(c.next())
            else:
                nt = parse_type(c)
                n = parse_value(c, nt)
                al = _align()
        return I(ty, (n,), al)
    if op == 'load':
        while c.peek() in ('volatile', 'atomic'):
            c.next()
        ty = parse_type(c)
        c.expect(',')
        pt, p = parse_tv(c)
        return I(ty, (p,), _align())
    if op == 'store':
        while c.peek() in ('volatile', 'atomic'):
            c.next()
        ty, v = parse_tv(c)
        c.expect(',')
        pt, p = parse_tv(c)
        return I(ty, (v, p), _align())
    if op == 'atomicrmw':
        # atomicrmw [volatile] <operation> <ty>* <pointer>, <ty> <value> [syncscope] <ordering>
        c.eat('volatile')
        kind = c.next()
        pt, p = parse_tv(c)
        c.expect(',')
        ty, v = parse_tv(c)
        return I(ty, (p, v), kind)
    if op == 'cmpxchg':
        # cmpxchg [weak] [volatile] <ty>* <pointer>, <ty> <cmp>, <ty> <new> <ordering> <ordering>  -> { ty, i1 }
        c.eat('weak')
        c.eat('volatile')
        pt, p = parse_tv(c)
        c.expect(',')
        ty, cmpv = parse_tv(c)
        c.expect(',')
        ty2, newv = parse_tv(c)
        return I(('lit', (ty, ('i', 1)), False), (p, cmpv, newv), ty)
    if op == 'fence':
        return I(('void',), ())
    if op == 'getelementptr':
        c.eat('inbounds')
        bt = parse_type(c)
        c.expect(',')
        pt, base = parse_tv(c)
        idx = []
        while c.eat(','):
            it, iv = parse_tv(c)
            idx.append(iv)
        return I(bt, (base,) + tuple(idx))
    if op in CASTS:
        st, v = parse_tv(c)
        c.expect('to')
        dt = parse_type(c)
        return I(dt, (v,), st)
    if op in BINOPS:
        while c.peek() in FLAGS:
            c.next()
        ty, a = parse_tv(c)
        c.expect(',')
        b = parse_value(c, ty)
        return I(ty, (a, b))
    if op == 'fneg':
        while c.peek() in FLAGS:
            c.next()
        ty, a = parse_tv(c)
        return I(ty, (a,))
    if op in ('icmp', 'fcmp'):
        while c.peek() in FLAGS:
            c.next()
        pred = c.next()
        ty, a = parse_tv(c)
        c.expect(',')
        b = parse_value(c, ty)
        return I(ty, (a, b), pred)
    if op == 'select':
        while c.peek() in FLAGS:
            c.next()
        ct, cv = parse_tv(c)
        c.expect(',')
        ty, a = parse_tv(c)
        c.expect(',')
        t2, b = parse_tv(c)
        return I(ty, (cv, a, b), ct)
    if op == 'phi':
        while c.peek() in FLAGS:
            c.next()
        ty = parse_type(c)
        inc = []
        while True:
            c.expect('[')
            v = parse_value(c, ty)
            c.expect(',')
            lab = c.next()
            c.expect(']')
            inc.append((v, lab[1:]))
            if not c.eat(','):
                break
        return I(ty, tuple(inc))
    if op == 'br':
        if c.eat('label'):
            return I(None, (), (c.next()[1:],))
        ty, cv = parse_tv(c)
        c.expect(','); c.expect('label')
        l1 = c.next()[1:]
        c.expect(','); c.expect('label')
        l2 = c.next()[1:]
        return I(ty, (cv,), (l1, l2))
    if op == 'switch':
        ty, v = parse_tv(c)
        c.expect(','); c.expect('label')
        dflt = c.next()[1:]
        c.expect('[')
        cases = []
        while not c.eat(']'):
            ct = parse_type(c)
            cv = parse_value(c, ct)
            c.expect(','); c.expect('label')
            cases.append((cv[1], c.next()[1:]))
        return I(ty, (v,), (dflt, tuple(cases)))
    if op == 'ret':
        if c.peek() == 'void' and c.peek(1) != '(':       # `ret void (i8*)* %f` returns a function pointer
            return I(('void',), ())
        ty, v = parse_tv(c)
        return I(ty, (v,))
    if op in ('call', 'invoke'):
        while c.peek() in FLAGS or c.peek() in ('fastcc', 'ccc', 'coldcc') or c.peek() in ATTRS or c.peek() in ATTRS_ARG:
            skip_attrs(c)
            if c.peek() in FLAGS or c.peek() in ('fastcc', 'ccc', 'coldcc'):
                c.next()
        rty = parse_type(c)
        if rty[0] == 'p' and rty[1][0] == 'fn':
            rty = rty[1][1]
        elif rty[0] == 'fn':
            rty = rty[1]
        asm = None
        if c.peek() == 'asm':
            c.next()
            while c.peek() in ('sideeffect', 'alignstack', 'inteldialect', 'unwind'):
                c.next()
            tmpl = c.next()
            c.expect(',')
            cons = c.next()
            asm = (tmpl[1:-1], cons[1:-1])
            callee = ('asm',)
        else:
            callee = parse_value(c, ('p', ('fn', rty, (), False)))
        c.expect('(')
        args = []
        atys = []
        if not c.eat(')'):
            while True:
                t = parse_type(c)
                skip_attrs(c)
                if t == ('metadata',):
                    # metadata operand: swallow
                    d = 0
                    while True:
                        p = c.peek()
                        if p in ('(', '!{'):
                            d += 1
                        if p == ')' and d == 0:
                            break
                        if p == ',' and d == 0:
                            break
                        if p == ')':
                            d -= 1
                        c.next()
                    args.append(('md',))
                else:
                    args.append(parse_value(c, t))
                atys.append(t)
                if c.eat(')'):
                    break
                c.expect(',')
        x = {'asm': asm, 'atys': tuple(atys)}
        if op == 'invoke':
            while c.peek() != 'to':
                c.next()
            c.next(); c.expect('label')
            x['normal'] = c.next()[1:]
            c.expect('unwind'); c.expect('label')
            x['unwind'] = c.next()[1:]
        return I(rty, (callee,) + tuple(args), x)
    if op == 'insertelement':
        ty, v = parse_tv(c)
        c.expect(',')
        et, e = parse_tv(c)
        c.expect(',')
        it, i = parse_tv(c)
        return I(ty, (v, e, i))
    if op == 'extractelement':
        ty, v = parse_tv(c)
        c.expect(',')
        it, i = parse_tv(c)
        return I(ty, (v, i))
    if op == 'shufflevector':
        ty, a = parse_tv(c)
        c.expect(',')
        t2, b = parse_tv(c)
        c.expect(',')
        mt, m = parse_tv(c)
        if m[0] == 'zero':
            mask = (0,) * mt[1]
        elif m[0] == 'undef':
            mask = (None,) * mt[1]
        else:
            mask = tuple(e[1] if e[0] == 'i' else None for e in m[1])
        return I(ty, (a, b), mask)
    if op == 'extractvalue':
        ty, v = parse_tv(c)
        idx = []
        while c.eat(','):
            idx.append(int(c.next()))
        return I(ty, (v,), tuple(idx))
    if op == 'insertvalue':
        ty, v = parse_tv(c)
        c.expect(',')
        et, e = parse_tv(c)
        idx = []
        while c.eat(','):
            idx.append(int(c.next()))
        return I(ty, (v, e), tuple(idx))
    if op in ('unreachable', 'landingpad', 'resume', 'fence', 'freeze', 'cleanup', 'catch', 'filter'):
        if op == 'freeze':
            ty, v = parse_tv(c)
            return I(ty, (v,))
        return I(None, ())
    raise IRError('unknown instruction: ' + text.strip())


class Function:
    def __init__(s, mod, name, header, lines, start_line):
        s.mod = mod
        s.name = name
        s.header = header
        s._lines = lines
        s.start_line = start_line
        s._decoded = False
        s.dbg = None
        m = re.search(r'!dbg (!\d+)', header)
        if m:
            s.dbg = m.group(1)
        # params
        i = header.index('@' + name) + len(name) + 1
        d = 0
        j = i
        while True:
            ch = header[j]
            if ch == '(':
                d += 1
            elif ch == ')':
                d -= 1
                if d == 0:
                    break
            j += 1
        ptxt = header[i + 1:j]
        s.params = []
        s.vararg = False
        c = Cur(tokenize(ptxt))
        while not c.done():
            if c.eat('...'):
                s.vararg = True
                break
            t = parse_type(c)
            skip_attrs(c)
            nm = c.next() if (c.peek() and c.peek()[0] == '%') else None
            s.params.append((t, nm))
            c.eat(',')
        pre = header[:header.index('@' + name)]
        pc = Cur(tokenize(pre))
        pc.next()  # define
        while pc.peek() in ('linkonce_odr', 'dso_local', 'internal', 'weak_odr', 'available_externally', 'private', 'hidden',
                            'weak', 'linkonce', 'external', 'noundef', 'zeroext', 'signext', 'nonnull', 'noalias', 'fastcc',
                            'align', 'dereferenceable', 'dereferenceable_or_null', 'protected', 'unnamed_addr',
                            'local_unnamed_addr') or (pc.peek() or '').isdigit() or pc.peek() in ('(', ')'):
            pc.next()
        s.ret = parse_type(pc)
        s.internal = ' internal ' in pre or ' private ' in pre

    def decode(s):
        if s._decoded:
            return s
        s.blocks = {}
        s.order = []
        lab = None
        joined = []
        in_switch = False
        for ln in s._lines:
            st = ln.strip()
            if not st or st[0] == ';':
                continue
            if in_switch:
                joined[-1] += ' ' + st
                if st.startswith(']'):
                    in_switch = False
                continue
            if st.startswith('to label ') or st == 'cleanup' or st.startswith('catch ') or st.startswith('filter '):
                joined[-1] += ' ' + st
                continue
            if (st.startswith('switch ') or ' = switch ' in st) and st.endswith('['):
                in_switch = True
            joined.append(st)
        for st in joined:
            if '@llvm.dbg.' in st and st.lstrip().startswith('call void @llvm.dbg.'):
                continue
            m = re.match(r'^([\w.$\-]+|"[^"]*"):', st)
            if m and not st.startswith('%'):
                lab = m.group(1)
                s.blocks[lab] = []
                s.order.append(lab)
                continue
            if lab is None:
                lab = 'entry' if not s.order else lab
                # unnamed entry block: numbered after the params
                if 'entry' not in s.blocks and not s.order:
                    lab = str(len(s.params)) if not any(n for _, n in s.params if n and not n[1:].isdigit()) and False else 'entry'
                    s.blocks[lab] = []
                    s.order.append(lab)
            try:
                s.blocks[lab].append(parse_instr(st))
            except IRError as e:
                raise IRError('%s: %s | %s' % (s.name, e, st[:200]))
            except (IndexError, ValueError, TypeError) as e:
                raise IRError('%s: parse failure %r | %s' % (s.name, e, st[:200]))
        s._decoded = True
        s._lines = None
        return s

    def instrs(s):
        s.decode()
        for lab in s.order:
            for ins in s.blocks[lab]:
                yield lab, ins


class Global:
    __slots__ = ('name', 'ty', 'init', 'const', 'text', 'align')

    def __init__(s, name, ty, init, const, text):
        s.name = name
        s.ty = ty
        s.init = init
        s.const = const
        s.text = text


_GLOB = re.compile(r'^(@"[^"]*"|@[\w.$\-]+) = (.*)$')


class Module:
    def __init__(s, path):
        s.path = path
        s.funcs = {}
        s.decls = {}
        s.structs = {}
        s._globtxt = {}
        s._globs = {}
        s._mdtxt = {}
        s._md = {}
        s._load()
        s._demangle()

    def _load(s):
        cur = None
        with open(s.path) as f:
            for lineno, line in enumerate(f, 1):
                if cur is not None:
                    if line.startswith('}'):
                        s.funcs[cur[0]] = Function(s, cur[0], cur[1], cur[2], cur[3])
                        cur = None
                    else:
                        cur[2].append(line.rstrip('\n'))
                    continue
                if line.startswith('define '):
                    m = re.search(r'@("[^"]+"|[\w.$\-]+)\(', line)
                    cur = (m.group(1), line.rstrip('\n'), [], lineno)
                elif line.startswith('@'):
                    m = _GLOB.match(line.rstrip('\n'))
                    if m:
                        s._globtxt[m.group(1)] = m.group(2)
                elif line.startswith('%'):
                    m = re.match(r'^(%"[^"]*"|%[\w.$\-]+) = type (.*)$', line.rstrip('\n'))
                    if m:
                        s.structs[m.group(1)] = m.group(2)
                elif line.startswith('!'):
                    m = re.match(r'^(!\d+) = (.*)$', line.rstrip('\n'))
                    if m:
                        s._mdtxt[m.group(1)] = m.group(2)
                elif line.startswith('declare '):
                    m = re.search(r'@("[^"]+"|[\w.$\-]+)\(', line)
                    if m:
                        s.decls[m.group(1)] = line.rstrip('\n')

    def _demangle(s):
        names = [n.strip('"') for n in list(s.funcs) + list(s.decls)]
        out = subprocess.run(['llvm-cxxfilt-14'], input='\n'.join(names), capture_output=True, text=True).stdout.split('\n')
        s.dem = {}
        s.by_dem = {}
        for n, d in zip(list(s.funcs) + list(s.decls), out):
            s.dem[n] = d
            if n in s.funcs:
                s.by_dem.setdefault(d, []).append(n)

    def fn(s, name):
        return s.funcs[name].decode()

    def find(s, dem):
        """unique function by exact demangled signature"""
        l = s.by_dem.get(dem, [])
        if len(l) != 1:
            raise KeyError(dem)
        return l[0]

    def find_re(s, pat, local=False):
        """functions whose demangled name matches; lambdas and other entities local to a function
        (`f(args)::{lambda(...)#1}::operator()`) are not `f` and are left out unless asked for"""
        r = re.compile(pat)
        return sorted(n for n in s.funcs if r.search(s.dem[n]) and (local or not ('{lambda' in s.dem[n] or ')::' in s.dem[n])))

    def struct_fields(s, name):
        r = s.structs.get(name)
        if r is None:
            raise IRError('unknown struct ' + name)
        if isinstance(r, str):
            if r.strip() == 'opaque':
                r = ('opaque',)
            else:
                r = parse_type(Cur(tokenize(r)))
            s.structs[name] = r
        return r

    def glob(s, name):
        g = s._globs.get(name)
        if g is None:
            txt = s._globtxt.get(name)
            if txt is None:
                raise IRError('unknown global ' + name)
            c = Cur(tokenize(txt))
            const = False
            while True:
                p = c.peek()
                if p in ('global', 'constant'):
                    const = (p == 'constant')
                    c.next()
                    break
                if p is None:
                    raise IRError('global? ' + txt[:80])
                c.next()
                if p == 'thread_local' and c.peek() == '(':
                    while c.next() != ')':
                        pass
            ty = parse_type(c)
            init = None
            if not c.done() and c.peek() != ',':
                init = parse_value(c, ty)
            g = Global(name, ty, init, const, txt)
            s._globs[name] = g
        return g

    def has_glob(s, name):
        return name in s._globtxt

    # ---- debug locations
    def md(s, ref):
        r = s._md.get(ref)
        if r is None:
            txt = s._mdtxt.get(ref, '')
            d = {'_kind': txt.split('(')[0].replace('distinct ', '').strip()}
            for k, v in re.findall(r'(\w+): ("(?:[^"\\]|\\.)*"|![\w]+|[\w\-]+)', txt):
                d[k] = v.strip('"') if v.startswith('"') else v
            r = d
            s._md[ref] = r
        return r

    def loc(s, dbg):
        """(file, line) of a !dbg reference (innermost location, inlined-at chain ignored)"""
        if dbg is None:
            return (None, None)
        d = s.md(dbg)
        line = d.get('line')
        sc = d.get('scope')
        file = None
        n = 0
        while sc and n < 50:
            sd = s.md(sc)
            if 'file' in sd and sd['_kind'] in ('!DISubprogram', '!DILexicalBlock', '!DILexicalBlockFile', '!DINamespace',
                                                '!DICompositeType'):
                fd = s.md(sd['file'])
                file = fd.get('filename')
                break
            sc = sd.get('scope')
            n += 1
        return (file, int(line) if line and line.isdigit() else None)

    def loc_chain(s, dbg):
        """[(file,line), ...] from innermost to outermost inlinedAt"""
        out = []
        n = 0
        while dbg and n < 20:
            out.append(s.loc(dbg))
            dbg = s.md(dbg).get('inlinedAt')
            n += 1
        return out

    def fn_loc(s, name):
        f = s.funcs[name]
        if f.dbg is None:
            return (None, None)
        d = s.md(f.dbg)
        file = s.md(d['file']).get('filename') if 'file' in d else None
        line = d.get('line')
        return (file, int(line) if line and line.isdigit() else None)


# ---- type layout (x86-64 data layout)
def sizeof(mod, ty):
    k = ty[0]
    if k == 'i':
        return (ty[1] + 7) // 8
    if k == 'p':
        return 8
    if k == 'f':
        return {16: 2, 32: 4, 64: 8, 80: 16, 128: 16}[ty[1]]
    if k == 'v':
        return (ty[1] * bits(mod, ty[2]) + 7) // 8
    if k == 'a':
        return ty[1] * sizeof(mod, ty[2])
    if k == 's':
        return sizeof(mod, mod.struct_fields(ty[1]))
    if k == 'lit':
        off = 0
        for f in ty[1]:
            if not ty[2]:
                a = alignof(mod, f)
                off = (off + a - 1) // a * a
            off += sizeof(mod, f)
        if not ty[2]:
            a = alignof(mod, ty)
            off = (off + a - 1) // a * a
        return off
    raise IRError('sizeof %r' % (ty,))


def bits(mod, ty):
    if ty[0] == 'i':
        return ty[1]
    if ty[0] == 'f':
        return ty[1]
    if ty[0] == 'p':
        return 64
    raise IRError('bits %r' % (ty,))


def alignof(mod, ty):
    k = ty[0]
    if k == 'i':
        return min(8, max(1, 1 << ((ty[1] + 7) // 8 - 1).bit_length())) if ty[1] > 8 else 1
    if k == 'p':
        return 8
    if k == 'f':
        return {16: 2, 32: 4, 64: 8, 80: 16, 128: 16}[ty[1]]
    if k == 'v':
        sz = sizeof(mod, ty)
        return 1 << (sz - 1).bit_length()
    if k == 'a':
        return alignof(mod, ty[2])
    if k == 's':
        return alignof(mod, mod.struct_fields(ty[1]))
    if k == 'lit':
        if ty[2]:
            return 1
        return max([alignof(mod, f) for f in ty[1]] or [1])
    raise IRError('alignof %r' % (ty,))


def field_offset(mod, ty, i):
    """(offset, field type) of field i of struct type ty (named or literal)"""
    if ty[0] == 's':
        ty = mod.struct_fields(ty[1])
    off = 0
    for j, f in enumerate(ty[1]):
        if not ty[2]:
            a = alignof(mod, f)
            off = (off + a - 1) // a * a
        if j == i:
            return off, f
        off += sizeof(mod, f)
    raise IRError('field index')


def tystr(ty):
    k = ty[0]
    if k == 'i':
        return 'i%d' % ty[1]
    if k == 'p':
        return tystr(ty[1]) + '*'
    if k == 'v':
        return '<%d x %s>' % (ty[1], tystr(ty[2]))
    if k == 'a':
        return '[%d x %s]' % (ty[1], tystr(ty[2]))
    if k == 's':
        return ty[1]
    if k == 'f':
        return {64: 'double', 32: 'float'}.get(ty[1], 'fp%d' % ty[1])
    if k == 'lit':
        return '{' + ', '.join(tystr(f) for f in ty[1]) + '}'
    return k
