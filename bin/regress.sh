#!/bin/bash
# usage: regress.sh benign|seeds [name-filter]
# Replays the archived behaviour-preserving refactors (every check must exit 0) or the archived seeded defects (the check
# of the seed's own property must exit 1) against a scratch worktree of /repo; /repo itself is never touched.
MODE=$1; FILTER=${2:-.}
W=$(mktemp -d /tmp/regress.XXXXXX); rmdir $W
git -C /repo worktree add --detach $W HEAD >/dev/null 2>&1 || { echo "cannot create worktree"; exit 2; }
trap 'git -C /repo worktree remove --force $W >/dev/null 2>&1' EXIT
cd /verif
if [ "$MODE" = benign ]; then
  for pf in $(ls /verif/benign/*/patch*.diff | grep -E "$FILTER"); do
    git -C $W checkout -q -- src; git -C $W clean -fdq src
    git -C $W apply $pf 2>/dev/null || { echo "APPLY-FAILED $pf"; continue; }
    r=$(bin/varianttest.sh $W 2>&1 | tail -5)
    echo "== $pf :: $(echo "$r" | tail -1)"
    echo "$r" | grep "exit=" | cut -c1-300
  done
else
  for d in $(ls -d /verif/seeded/*/ | grep -E "$FILTER"); do
    p=$(python3 -c "import json;print(json.load(open('$d/meta.json'))['property'])")
    [ "$(basename $d)" = C05b-rsize-lt ] && p=C19
    git -C $W checkout -q -- src; git -C $W clean -fdq src
    git -C $W apply $d/patch.diff 2>/dev/null || { echo "APPLY-FAILED $d"; continue; }
    r=$(bin/varianttest.sh $W $p 2>&1 | tail -3)
    if echo "$r" | grep -q "$p exit=1"; then echo "== $(basename $d) :: detected by $p"; else echo "== $(basename $d) :: NOT DETECTED by $p :: $(echo "$r" | head -1 | cut -c1-200)"; fi
  done
fi
