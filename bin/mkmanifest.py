#!/usr/bin/env python3
"""Regenerates /verif/MANIFEST.json from the table below (kept in one place so it stays valid)."""
import json, os
ROOT = os.path.dirname(os.path.dirname(os.path.abspath(__file__)))
props = [json.loads(l) for l in open(os.path.join(ROOT, 'properties.jsonl'))]
AI = 'abstract interpretation of clang-14 LLVM IR'
CHECKS = {
 'C01': dict(cat='proof', text='kernel-mode abstract interpretation of the inline-asm add/sub/mul templates (x86 subset semantics over exact integer polynomials with carry partitioning) and of inc/dec: output = a o b mod p for all 2^128 operand pairs under all five aliasing patterns; R-ASM lint of each template; derived API (square, neg, mulScalar, returning overloads, operators) in wrapper mode',
             note='trusts the modelled semantics of 10 x86 mnemonics and clang lowering; USE_MONTGOMERY=0 as built; refutations carry an exact-arithmetic witness', tech='abstract interpretation (limb-split integer polynomials + intervals + carry trace partitioning) incl. x86 asm templates; asm constraint lint'),
 'C02': dict(cat='proof', text='kernel-mode abstract interpretation of all 18 contracted AVX2 kernels (14 field, 3 exact-product, 1 dot) per lane and per precondition box: out = field op mod p / exact product over Z with no intermediate wrap, outputs within the contract post-range',
             note='trusts clang lowering of intrinsics to generic IR, opt sroa/early-cse, glv kernel semantics; contracts transcribed from the header comments (glv/contracts.py)', tech='abstract interpretation (limb-split integer polynomials + intervals + carry trace partitioning)'),
 'C03': dict(cat='proof', text='bounded-shape abstract interpretation of constructor + NTT + scatter on the IR with concrete shapes and symbolic matrix entries: each output cell has the DFT coefficient vector (library root W[log2 n]); source untouched; no sink, out-of-bounds, uninitialised read or leak; size 0 / zero columns no-op; 3.7k shape configurations quick (capacity <= 32), ~100k thorough (capacity <= 128, two thread settings)',
             note='universal in data and representation, bounded in shape; the DFT identity beyond the bound is not decided; GMP constructor calls modelled on Python integers', tech='abstract interpretation of LLVM IR with shape parameters fixed by constant propagation (linear forms over input atoms vs DFT matrix)'),
 'C04': dict(cat='proof', text='as C03 for INTT (coefficient vectors n^-1 w^-jk) plus the matrix identity IDFT x DFT = I for each size in the bound, giving INTT(NTT(x)) = NTT(INTT(x)) = x; null destination = in place',
             note='as C03', tech='abstract interpretation of LLVM IR with shape parameters fixed by constant propagation'),
 'C05': dict(cat='proof', text='as C03 for extendPol incl. the internally constructed extension object: out[k][c] = f_c(7 w_Next^k) as linear forms, in place and with separate input; 3.5k configurations quick (N <= N_ext <= 32)',
             note='as C03', tech='abstract interpretation of LLVM IR with shape parameters fixed by constant propagation'),
 'C06': dict(cat='proof', text='the three full-result permutations interpreted abstractly on symbolic states (x^7 S-boxes as AC-normalised power products of hash-consed linear forms): all outputs equal the specified 4+22+4-round permutation written in the checker, hence agree; AVX512 per interleaved state; lane-kernel preconditions at all call sites; tables canonical / 8-bit / transposed-flattening relations; hash* = first four elements',
             note='round constants and matrices are taken from the library tables (no independent source in the repository); lane kernels by contract (C01/C02/C11)', tech=AI + ': residue normal forms with opaque power products; sibling agreement'),
 'C07': dict(cat='proof', text='linear_hash_seq/linear_hash/linear_hash_avx512 interpreted for every length 0..256 (quick) / 0..2048 (thorough) with the permutation opaque: digest cells and input read set equal the reference sponge; universal in element values, bounded in length',
             note='bounded in the length (all residues mod 8 and both sides of the pass-through threshold covered many times); permutation opaque (C06)', tech=AI + ' with shape parameters fixed by constant propagation (bounded-shape mode)'),
 'C08': dict(cat='proof', text='all six builders and the two default wrappers interpreted for every shape in the bound (rows 1..8, cols incl. 0, dim 1/3, batch sizes incl. > cols) with the permutation opaque: each tree cell equals the reference tree, written extent = getTreeNumElements(rows), read set exact, no out-of-bounds; helper functions for symbolic sizes',
             note='bounded in shape, universal in data; permutation/sponge opaque (C06/C07)', tech='abstract interpretation of LLVM IR with shape parameters fixed by constant propagation vs reference tree over hash-consed opaque permutation terms'),
 'C09': dict(cat='proof', text='scalar cubic-extension routines interpreted abstractly and expanded as polynomials mod p; equality with schoolbook arithmetic in F_p[x]/(x^3-x-1) under all aliasing patterns; inv by the cofactor identity; isOne by exhaustive path exploration over its residue tests; batchInverse over opaque extension elements for lengths in a stated bound (1..32 quick, 1..256 thorough)',
             note='trusts clang lowering, glv IR semantics, scalar field contracts (C01), irreducibility of x^3-x-1; batchInverse bounded in length', tech=AI + ': polynomial normal forms (ring identities), path exploration for predicates'),
 'C10': dict(cat='proof', text='inv: must-exit rule on the CFG for operands congruent to zero (guard = residue test, both representations refused, nothing stored); inductive loop argument: one abstract iteration of the extended-Euclid loop from a havocked state preserves t*a = r, newt*a = newr (mod p), entry establishes it, exit returns t; div = a*inv(b); exp = base^e for a bounded exponent set (>260 exponents incl. all 2^k, 2^k+-1, 2^64-1) plus a halving ranking function for termination',
             note='not decided: that the remainder sequence of inv is the integer Euclidean one (termination of that loop, r_exit = 1); exp bounded in the exponent', tech='CFG must-pass-through rule + abstract interpretation (residue normal forms; loop invariant by one abstract iteration from a havocked state) + ranking-function pattern'),
 'C11': dict(cat='proof', text='as C02 for the 14 contracted AVX512 kernels on the -D__AVX512__ configuration, all 8 lanes',
             note='as C02; the AVX512 code is never compiled by the shipped test build', tech='abstract interpretation (limb-split integer polynomials + intervals + carry trace partitioning)'),
 'C12': dict(cat='proof', text='(1) static rules on each of the 16/20 outlined parallel regions (no write to captured variables, no thread-identity/reduction/atomic/dynamic-schedule construct, static schedule); (2) per-iteration footprints of every region instance for bounded shapes (transforms, Merkle builders, parcpy/parSetZero for all sizes 0..40 x thread arguments -1..9): pairwise free of write/write and write/read overlap on non-private memory, for all data and therefore all schedules and team sizes',
             note='iterations are the units a static schedule distributes; privatisation read from the compiler outlining; footprint tier bounded in shape', tech='effect/footprint analysis over clang -fopenmp outlined IR (abstract interpretation, one abstract thread owning all chunks) + structural rules on outlined functions'),
 'C13': dict(cat='proof', text='every AVX2 dot/spmv/mmult kernel interpreted on symbolic lanes: result lanes have the normal form of the documented matrix product mod p; coefficient reads inside the declared array; lane-kernel typestate preconditions at each call site',
             note='lane kernels replaced by their contracts (proved under C02); 8-bit variants under the documented <2^8 precondition', tech=AI + ': residue normal forms + representation typestate at call sites'),
 'C14': dict(cat='proof', text='every AVX512 dot/spmv/mmult kernel interpreted on two interleaved symbolic states: per-state matrix product normal forms and representation-typestate preconditions at every lane-kernel call site (the rule that exposed the add_avx512_b_c defect)',
             note='lane kernels replaced by their contracts (proved under C11)', tech=AI + ': residue normal forms + representation typestate at call sites'),
 'C15': dict(cat='proof', text='kernel mode on fromU64/fromS64/fromS32/toU64 (sign boxes, exact wrap, canonical outputs); predicates (equal, isZero, isOne, isNegone, operator==) explored over their residue tests; R-MPZ: the GMP calls behind fromString/fromScalar/toS64/toS32 interpreted on abstract big integers (symbol + interval + inherited residue; truncating remainder; get_ui/get_si/narrowing obligations) with all sign/comparison paths explored and compared with the specification on each path interval; round trips as corollaries',
             note='GMP entry points trusted to behave as documented; string parsing and formatting not decided', tech='abstract interpretation: limb-split kernel domain for machine-integer conversions, sign/interval/residue domain for big-integer conversions, path exploration for predicates'),
 'C16': dict(cat='proof', text='all 156 batched/AVX2/AVX512 cubic-extension overloads (both build configurations) interpreted on symbolic operands, strides and index arrays against a specification derived from the signature alone; exact write set, reads inside designated cells, kernel preconditions',
             note='trusts the shape-code grammar (frozen table, one documented exception), kernel contracts, glv IR semantics', tech=AI + ' vs signature-derived oracle'),
 'C17': dict(cat='proof', text='all copy/add/sub/mul _batch/_avx/_avx512 overloads interpreted on symbolic operands, strides and index arrays against a signature-derived specification; exact write set and read footprint',
             note='trusts the role grammar, kernel contracts, glv IR semantics; parcpy/parSetZero are decided under C12/C18 rules', tech=AI + ' vs signature-derived oracle'),
 'C18': dict(cat='proof', text='R-ALLOC (deallocator matches every allocation kind reaching it), R-SHIFT, R-ALIGN (aligned vector accesses / aligned-contract calls through provably aligned pointers) for all shapes; footprint-in-extent and no uninitialised read for 369 wrapper / matrix / extension routines; object lifetimes construct-use-destroy on an abstract heap with allocation kinds; memory-safety sinks of the bounded-shape tiers (transforms, sponge, Merkle) with exact-size buffers',
             note='stack exhaustion by parameter-sized VLAs and shapes outside the bounds are not decided', tech='alloc/release pairing and alignment typestate rules over LLVM IR + abstract interpretation with an abstract heap (extents, allocation kinds, initialisation state)'),
 'C19': dict(cat='model_checking', text='reachability closure over the abstract state of one transform object: every operation of the bounded alphabet is applied in every distinct reachable object state (fields + owned tables), each result compared with the specification for all data; closure covers all finite call sequences over the alphabet',
             note='alphabet bounded (capacity <= 16 quick / 64 thorough, two phase/block settings, ncols = 2); the implementation itself is interpreted (no extracted model)', tech='abstract interpretation + explicit reachability over canonicalised object states'),
 'C20': dict(cat='other', text='tables clause only: the three 33-row device tables are extracted from ntt_goldilocks.cuh and evaluated by clang as C constant initialisers; omegas[i] = CPU W[i], root chain, omegas*omegas_inv = 1, domain_size_inverse*2^i = 1 (mod p), MOD = p, W = 2^32-1. The PTX arithmetic clause is NOT decided',
             note='no CUDA front end in this image: gl64_t.cuh cannot be parsed, so the device arithmetic is outside any resolved program; declined rather than text-matched', tech='constant-table relations evaluated from compiler-parsed initialisers'),
}
NA = {}
man = {
 'version': 1,
 'setup_cmd': 'sh /verif/bin/setup.sh',
 'hooks': {'guard': 'GOLDILOCKS_VERIF',
           'enable': 'no source hooks are needed: the analysis enters through a unity translation unit generated under /verif/.work (clang++ -DGOLDILOCKS_VERIF ...); /repo carries only unguarded "fix:" commits',
           'baseline_off_cmd': 'sh /verif/bin/baseline.sh', 'source_commits': [], 'add_only': True},
 'engines': [{'name': 'glv', 'path': '/verif/glv', 'serves_properties': sorted(CHECKS),
              'kind_free_text': 'static analysis: abstract interpretation of clang-14 LLVM IR in repository-specific domains + rule checkers over IR/AST'}],
 'checks': [], 'notes': 'see DESIGN.md; exit 2 + ANALYSIS-INCOMPLETE means the analysis could not follow the code (never a pass, never a violation)',
 'not_applicable': []}
for pid in sorted(CHECKS):
    c = CHECKS[pid]
    man['checks'].append({
        'property_id': pid, 'quick_cmd': 'python3 -m glv.check %s --tier quick' % pid,
        'thorough_cmd': 'python3 -m glv.check %s --tier thorough' % pid, 'evidence_file': '/verif/evidence/%s.json' % pid,
        'replay_cmd_template': 'python3 -m glv.check %s --replay {path}' % pid, 'engine': 'glv',
        'level_claimed': {'category': c['cat'], 'text': c['text'], 'design_ref': 'DESIGN.md §5 ' + pid},
        'level_note': c['note'], 'technique': c['tech']})
for p in props:
    if p['id'] not in CHECKS:
        man['not_applicable'].append({'property_id': p['id'], 'reason': NA.get(p['id'], 'check under construction in this revision (planned static rule: DESIGN.md §5)')})
json.dump(man, open(os.path.join(ROOT, 'MANIFEST.json'), 'w'), indent=1)
print('MANIFEST.json: %d checks, %d not applicable' % (len(man['checks']), len(man['not_applicable'])))
