#!/bin/bash
# usage: varianttest.sh <scratch worktree with the variant applied> [checks...]
# Runs the quick checks against a scratch copy of the repository (GLV_REPO) without touching /repo or /verif/evidence.
# Prints one line per check: id, exit code, first finding.
W=$1; shift
CHECKS=${@:-C01 C02 C03 C04 C05 C06 C07 C08 C09 C10 C11 C12 C13 C14 C15 C16 C17 C18 C19 C20}
T=$(mktemp -d /tmp/variant.XXXXXX)
export GLV_REPO=$W GLV_WORK=$T/work GLV_EVIDENCE=$T/evidence
cd /verif
for c in $CHECKS; do
  ( python3 -m glv.check $c --tier quick > $T/$c.out 2>&1; echo $? > $T/$c.rc ) &
done
wait
for c in $CHECKS; do
  rc=$(cat $T/$c.rc)
  if [ "$rc" != 0 ]; then
    echo "$c exit=$rc :: $(grep -m1 'refuted:\|ANALYSIS-INCOMPLETE\|Error\|Traceback' $T/$c.out | cut -c1-300)"
  fi
done
echo "nonzero: $(cat $T/*.rc | grep -vc '^0$') of $(ls $T/*.rc | wc -l)"
if [ -n "$KEEP" ]; then echo "outputs kept in $T"; else rm -rf $T; fi
