#!/bin/sh
# Repository test-suite with the verification guard OFF (no -DGOLDILOCKS_VERIF), built exactly as `make testcpu` does.
set -e
OUT=/verif/.work/baseline
mkdir -p "$OUT"
cd /repo
g++ tests/tests.cpp src/*.cpp -lgtest -lgmp -O3 -Wall -pthread -fopenmp -mavx2 -o "$OUT/testcpu"
cd "$OUT"
./testcpu --gtest_output=xml:"$OUT/junit.xml"
