#!/bin/bash
# usage: seedtest.sh <property> <seed worktree dir> <name> [extra demo flags]
# Confirms a sub-agent's seeded defect (tests pass with it, demo fails with it / passes without), archives it under
# /verif/seeded/<name>/ and runs the property's check against /repo with the patch applied (then reverts /repo).
P=$1; D=$2; NAME=$3; XF=$4
S=$D/seed
set -u
cd "$D" || exit 2
git checkout -q -- src tests
git apply --check "$S/patch.diff" || { echo "patch does not apply"; exit 2; }
FL="-std=c++17 -O2 -mavx2 -Isrc -fopenmp -pthread $XF"
g++ $FL "$S/demo.cpp" src/*.cpp -lgmp -o "$S/demo_clean" 2>"$S/build_clean.log" || { echo "demo build (clean) failed"; tail -5 "$S/build_clean.log"; }
"$S/demo_clean" >"$S/demo_clean.out" 2>&1; RC_CLEAN=$?
git apply "$S/patch.diff"
g++ tests/tests.cpp src/*.cpp -lgtest -lgmp -O3 -Wall -pthread -fopenmp -mavx2 -o "$S/testcpu" 2>"$S/build_tests.log"; RC_B=$?
"$S/testcpu" >"$S/tests.out" 2>&1; RC_T=$?
NPASS=$(grep -c "^\[       OK \]" "$S/tests.out")
g++ $FL "$S/demo.cpp" src/*.cpp -lgmp -o "$S/demo_seeded" 2>"$S/build_seeded.log" || { echo "demo build (seeded) failed"; tail -5 "$S/build_seeded.log"; }
"$S/demo_seeded" >"$S/demo_seeded.out" 2>&1; RC_SEEDED=$?
git checkout -q -- src tests
echo "tests: build=$RC_B exit=$RC_T passed=$NPASS | demo clean exit=$RC_CLEAN | demo seeded exit=$RC_SEEDED"
OUT=/verif/seeded/$NAME
mkdir -p "$OUT"
cp "$S/patch.diff" "$S/demo.cpp" "$OUT/"; cp "$S/README.txt" "$OUT/README.txt" 2>/dev/null
# run the check against a scratch worktree of /repo with the patch applied (/repo itself is never touched: other jobs read it)
W=$(mktemp -d /tmp/seedtest.XXXXXX); rmdir $W
git -C /repo worktree add --detach $W HEAD >/dev/null 2>&1 || { echo "cannot create worktree"; exit 2; }
git -C $W apply "$S/patch.diff" || { echo "patch does not apply to a clean worktree"; git -C /repo worktree remove --force $W; exit 2; }
WK=$(mktemp -d /tmp/seedwork.XXXXXX)
cd /verif && GLV_REPO=$W GLV_WORK=$WK/work GLV_EVIDENCE=$WK/evidence python3 -m glv.check "$P" --tier quick >"$OUT/check_quick.out" 2>&1; RC_CHK=$?
git -C /repo worktree remove --force $W >/dev/null 2>&1; rm -rf $WK
NV=$(grep -c "^VIOLATION" "$OUT/check_quick.out")
echo "check $P on seeded tree: exit=$RC_CHK violations=$NV"
grep -m3 "refuted:" "$OUT/check_quick.out" | cut -c1-400
python3 - "$P" "$NAME" "$RC_T" "$NPASS" "$RC_CLEAN" "$RC_SEEDED" "$RC_CHK" "$NV" "$XF" <<'PY'
import json,sys
p,name,rt,npass,rc,rs,rchk,nv,xf=sys.argv[1:10]
meta=dict(property=p,name=name,source='independent sub-agent given only the property text and a scratch worktree',
 confirmed=dict(test_suite_exit_with_patch=int(rt),tests_passed_with_patch=int(npass),demo_exit_clean=int(rc),demo_exit_seeded=int(rs)),
 demo_build='g++ -std=c++17 -O2 -mavx2 -Isrc -fopenmp -pthread %s demo.cpp src/*.cpp -lgmp'%xf,
 check=dict(cmd='python3 -m glv.check %s --tier quick'%p,exit=int(rchk),violation_lines=int(nv),detected=int(rchk)==1))
json.dump(meta,open('/verif/seeded/%s/meta.json'%name,'w'),indent=1)
PY

