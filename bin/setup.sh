#!/bin/sh
# Offline setup: verify the tools the checks need and byte-compile the framework. Nothing is fetched.
set -e
cd /verif
for t in clang++ opt-14 llvm-cxxfilt-14 python3 g++; do
  command -v "$t" >/dev/null 2>&1 || { echo "missing tool: $t"; exit 1; }
done
python3 -m compileall -q glv
mkdir -p .work evidence
echo "glv setup ok"
