#include "goldilocks_base_field.hpp"
int main(){ Goldilocks::Element a[1], b[1]; a[0]=Goldilocks::fromU64(5); b[0]=Goldilocks::fromU64(7); Goldilocks::parcpy(a,b,0,4); Goldilocks::parSetZero(a,0,4); return Goldilocks::toU64(a[0])==5?0:1; }
