// Concrete replays of the genuine defects found by the static checks on the pinned tree
// (0xPolygonHermez/goldilocks @7f75be6).  Triage aid only: not part of any registered check.
// build: g++ -std=c++17 -O1 -fopenmp -mavx2 [-mavx512f -D__AVX512__] -I/repo/src repro.cpp /repo/src/*.cpp -lgmp -o repro
// run:   ./repro <case>   exit 0 = behaves as the property demands, 1 = defect reproduced
#include "goldilocks_base_field.hpp"
#include "goldilocks_cubic_extension.hpp"
#include "ntt_goldilocks.hpp"
#include "poseidon_goldilocks.hpp"
#include "merklehash_goldilocks.hpp"
#include <cstdio>
#include <cstring>
#include <string>
#include <vector>
typedef Goldilocks::Element E;
static const uint64_t Pm = 0xFFFFFFFF00000001ULL;
static uint64_t mulm(uint64_t a, uint64_t b) { return (unsigned __int128)a * b % Pm; }
static uint64_t powm(uint64_t a, uint64_t e) { uint64_t r = 1; while (e) { if (e & 1) r = mulm(r, a); a = mulm(a, a); e >>= 1; } return r; }
static std::vector<uint64_t> dft(const std::vector<uint64_t> &in, uint64_t n, uint64_t nc, bool inv)
{
    uint64_t lg = 0; while ((1ULL << lg) < n) lg++;
    uint64_t w = Goldilocks::toU64(Goldilocks::w(lg)); if (inv) w = powm(w, Pm - 2);
    uint64_t ninv = powm(n % Pm, Pm - 2);
    std::vector<uint64_t> out(n * nc);
    for (uint64_t k = 0; k < n; k++) for (uint64_t c = 0; c < nc; c++) {
        unsigned __int128 s = 0;
        for (uint64_t j = 0; j < n; j++) s = (s + (unsigned __int128)mulm(in[j * nc + c] % Pm, powm(w, (j * k) % n))) % Pm;
        out[k * nc + c] = inv ? mulm((uint64_t)s, ninv) : (uint64_t)s;
    }
    return out;
}
static std::vector<uint64_t> lde(const std::vector<uint64_t> &in, uint64_t N, uint64_t Next, uint64_t nc)
{
    std::vector<uint64_t> co = dft(in, N, nc, true), out(Next * nc);
    uint64_t lg = 0; while ((1ULL << lg) < Next) lg++;
    uint64_t w = Goldilocks::toU64(Goldilocks::w(lg));
    for (uint64_t k = 0; k < Next; k++) { uint64_t x = mulm(7, powm(w, k));
        for (uint64_t c = 0; c < nc; c++) { uint64_t s = 0, xp = 1; for (uint64_t j = 0; j < N; j++) { s = (uint64_t)(((unsigned __int128)s + mulm(co[j * nc + c], xp)) % Pm); xp = mulm(xp, x); } out[k * nc + c] = s; } }
    return out;
}
static bool same(E *a, const std::vector<uint64_t> &b) { for (size_t i = 0; i < b.size(); i++) if (Goldilocks::toU64(a[i]) != b[i]) return false; return true; }
int main(int argc, char **argv)
{
    std::string c = argc > 1 ? argv[1] : "";
    if (c == "F1") { Goldilocks3::Element e = {Goldilocks::fromU64(1), Goldilocks::fromU64(5), Goldilocks::fromU64(7)}; return Goldilocks3::isOne(e) ? 1 : 0; }
    if (c == "F3") { // NTT(dst=NULL, nblock=2): null destination means in place
        NTT_Goldilocks ntt(4); E a[8]; std::vector<uint64_t> in(8); for (int i = 0; i < 8; i++) { in[i] = 3 * i + 1; a[i] = Goldilocks::fromU64(in[i]); }
        ntt.NTT(NULL, a, 4, 2, NULL, 1, 2); return same(a, dft(in, 4, 2, false)) ? 0 : 1; }
    if (c == "F4") { // capacity 8, size 4, nphase 2
        NTT_Goldilocks ntt(8); E a[4], d[4]; std::vector<uint64_t> in(4); for (int i = 0; i < 4; i++) { in[i] = 5 * i + 2; a[i] = Goldilocks::fromU64(in[i]); }
        ntt.NTT(d, a, 4, 1, NULL, 2, 1); return same(d, dft(in, 4, 1, false)) ? 0 : 1; }
    if (c == "F5") { // extendPol N=2 -> 4, default phases
        NTT_Goldilocks ntt(4); E a[4]; std::vector<uint64_t> in = {11, 29}; a[0] = Goldilocks::fromU64(11); a[1] = Goldilocks::fromU64(29); a[2] = a[3] = Goldilocks::zero();
        ntt.extendPol(a, a, 4, 2, 1); return same(a, lde(in, 2, 4, 1)) ? 0 : 1; }
    if (c == "F6" || c == "F6b") { // extendPol(N=8) then extendPol(N=4) on one object (F6b: 4 then 8)
        NTT_Goldilocks ntt(16); uint64_t n1 = c == "F6" ? 8 : 4, n2 = c == "F6" ? 4 : 8; E a[16], b[16];
        std::vector<uint64_t> i1(n1), i2(n2);
        for (uint64_t i = 0; i < 16; i++) a[i] = b[i] = Goldilocks::zero();
        for (uint64_t i = 0; i < n1; i++) { i1[i] = 7 * i + 3; a[i] = Goldilocks::fromU64(i1[i]); }
        for (uint64_t i = 0; i < n2; i++) { i2[i] = 9 * i + 4; b[i] = Goldilocks::fromU64(i2[i]); }
        ntt.extendPol(a, a, 16, n1, 1); ntt.extendPol(b, b, 16, n2, 1);
        return (same(a, lde(i1, n1, 16, 1)) && same(b, lde(i2, n2, 16, 1))) ? 0 : 1; }
    if (c == "F7") { E e = Goldilocks::fromString("-18446744069414584322"); // -(p+1) = -1 mod p
        mpz_class m("-18446744069414584322"); E f = Goldilocks::fromScalar(m);
        return (Goldilocks::toU64(e) == Pm - 1 && Goldilocks::toU64(f) == Pm - 1) ? 0 : 1; }
    if (c == "F8") { int32_t r = 0; bool ok = Goldilocks::toS32(r, Goldilocks::fromS32(INT32_MIN)); return (ok && r == INT32_MIN) ? 0 : 1; }
#ifdef __AVX512__
    if (c == "F9") { E a0[8], a1[8], a2[8], b[12], out[8];
        for (int i = 0; i < 8; i++) { a0[i] = a1[i] = Goldilocks::fromU64(2); a2[i] = Goldilocks::zero(); }
        for (int i = 0; i < 12; i++) b[i] = Goldilocks::zero(); b[0] = b[4] = Goldilocks::fromU64(0x7FFFFFFFFFFFFFFFULL);
        __m512i A0, A1, A2, Cc; Goldilocks::load_avx512(A0, a0); Goldilocks::load_avx512(A1, a1); Goldilocks::load_avx512(A2, a2);
        Goldilocks::spmv_avx512_4x12(Cc, A0, A1, A2, b); Goldilocks::store_avx512(out, Cc);
        uint64_t exp = (mulm(2, 0x7FFFFFFFFFFFFFFFULL) * 2ULL) % Pm; exp = (uint64_t)(((unsigned __int128)mulm(2, 0x7FFFFFFFFFFFFFFFULL) * 2) % Pm);
        return Goldilocks::toU64(out[0]) == exp ? 0 : 1; }
    if (c == "F10") { // one-row tree through the AVX512 builder: guard cells around exact-size buffers
        const uint64_t cols = 9; std::vector<E> in(cols + 16), tr(4 + 16), ref(4);
        for (auto &x : in) x = Goldilocks::fromU64(0xABCD); for (auto &x : tr) x = Goldilocks::fromU64(0x5555);
        for (uint64_t i = 0; i < cols; i++) in[i] = Goldilocks::fromU64(i + 1);
        PoseidonGoldilocks::merkletree_seq(ref.data(), in.data(), cols, 1);
        PoseidonGoldilocks::merkletree_avx512(tr.data(), in.data(), cols, 1);
        bool ok = true; for (int i = 0; i < 4; i++) ok &= Goldilocks::toU64(tr[i]) == Goldilocks::toU64(ref[i]);
        for (int i = 4; i < 20; i++) ok &= tr[i].fe == 0x5555;
        std::vector<E> tr2(4 + 16); for (auto &x : tr2) x = Goldilocks::fromU64(0x5555);
        PoseidonGoldilocks::merkletree_batch_seq(ref.data(), in.data(), cols, 1, 4);
        PoseidonGoldilocks::merkletree_batch_avx512(tr2.data(), in.data(), cols, 1, 4);
        for (int i = 0; i < 4; i++) ok &= Goldilocks::toU64(tr2[i]) == Goldilocks::toU64(ref[i]);
        for (int i = 4; i < 20; i++) ok &= tr2[i].fe == 0x5555;
        return ok ? 0 : 1; }
#endif
    fprintf(stderr, "unknown case %s\n", c.c_str()); return 2;
}
